#!/bin/bash
# developer tool: tools/regress.sh split over N shards, each with its own copy of /verif (own facts
# cache) and its own detached worktree of /repo, so shards do not disturb each other or /repo.
# usage: [REGRESS_LIST=<file of 'M <id>' / 'B <id>' lines>] tools/regress_sharded.sh [N=4] ; logs in /tmp/regress/shard<i>.log ; summary at the end.
N=${1:-4}
rm -rf /tmp/regress; mkdir -p /tmp/regress
if [ -n "${REGRESS_LIST:-}" ]; then cp "$REGRESS_LIST" /tmp/regress/all; else
ls -d /verif/seeded/*/ | sed 's|.*/seeded/||; s|/||; s|^|M |' > /tmp/regress/all
ls -d /verif/seeded_benign/*/ | sed 's|.*/seeded_benign/||; s|/||; s|^|B |' >> /tmp/regress/all
fi
for i in $(seq 0 $((N-1))); do
  awk -v n=$N -v i=$i 'NR%n==i' /tmp/regress/all > /tmp/regress/list$i
  rm -rf /tmp/regress/v$i; rsync -a --exclude .git --exclude .cache /verif/ /tmp/regress/v$i/
  git -C /repo worktree add --detach -f /tmp/regress/r$i HEAD -q
  (
    export BMSA_REPO=/tmp/regress/r$i
    cd /tmp/regress/v$i
    while read kind id; do
      if [ $kind = M ]; then
        prop=${id%-*}
        out=$(tools/try_mutant.sh seeded/$id/patch.diff $prop 2>&1 | head -1)
        if echo "$out" | grep -q "$prop rc=1"; then echo "ok   mutant $id detected by $prop"; else echo "MISS mutant $id: $out"; fi
      else
        out=$(tools/try_mutant.sh seeded_benign/$id/patch.diff 2>&1 | head -1)
        if echo "$out" | grep -q "rc=1"; then echo "FALSE-ALARM benign $id: $out"; else echo "ok   benign $id silent"; fi
      fi
    done < /tmp/regress/list$i > /tmp/regress/shard$i.log 2>&1
  ) &
done
wait
for i in $(seq 0 $((N-1))); do git -C /repo worktree remove --force /tmp/regress/r$i; rm -rf /tmp/regress/v$i; done
cat /tmp/regress/shard*.log | grep -v '^ok' ; echo "total=$(cat /tmp/regress/shard*.log | wc -l) ok=$(cat /tmp/regress/shard*.log | grep -c '^ok') expected=$(wc -l < /tmp/regress/all)"
