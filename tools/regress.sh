#!/bin/bash
# developer tool: every seeded mutant must be reported by its target property's check; every
# behaviour-preserving refactor must leave all 17 checks silent.
cd /verif
fail=0
for d in seeded/*/; do
  id=$(basename $d); prop=${id%-*}
  out=$(tools/try_mutant.sh $d/patch.diff $prop 2>&1 | head -1)
  if echo "$out" | grep -q "$prop rc=1"; then echo "ok   mutant $id detected by $prop"; else echo "MISS mutant $id: $out"; fail=1; fi
done
for d in seeded_benign/*/; do
  id=$(basename $d)
  out=$(tools/try_mutant.sh $d/patch.diff 2>&1 | head -1)
  if echo "$out" | grep -q "rc=1"; then echo "FALSE-ALARM benign $id: $out"; fail=1; else echo "ok   benign $id silent"; fi
done
exit $fail
