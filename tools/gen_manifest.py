#!/usr/bin/env python3
"""regenerate /verif/MANIFEST.json (kept in a script so that notes stay in sync with props.py)"""
import json
props = [json.loads(l) for l in open('/verif/properties.jsonl')]
tech = {
 "C01": "abstract interpretation of generic MIR in a free term domain; inversion by substitution + normal-form equality",
 "C02": "abstract interpretation of kernel MIR vs mode recurrence terms; closed-form n-fold for parallel bodies",
 "C03": "abstract interpretation of kernel MIR vs CFB/CFB-8/OFB terms; who-may-call (encryption direction only)",
 "C04": "abstract interpretation with wrapping-integer/byte-encoding terms vs counter-block layout, per flavour",
 "C05": "path-partitioned abstract interpretation of the 12 entry points with symbolic lengths vs SP 800-38A-addendum layout",
 "C06": "abstract interpretation with 128-bit wrapping integer terms vs STB 34.101.31 CTR definition",
 "C07": "override table over trait impls + parallel body == closed-form n-fold (symbolic width) by term equality",
 "C08": "term equality of both paths of buffered CFB with the stream definition, composition of calls by substitution; data-independence of keystream kernels",
 "C09": "term equality init(export(st)) == st and export(R(W)) == W from interpreted inner_iv_init / iv_state",
 "C10": "integer-term equality for get/set block position of every core; counter type table",
 "C11": "integer-term equality for remaining/advance + CFG dominance rule (check_remaining dominates keystream use) on the wrapper's MIR",
 "C12": "abstract interpretation under both aliasing assumptions (in==out, in!=out) + equality of summaries",
 "C13": "path conditions of the gates and wrappers from the interpreter, panic-site obligations discharged by linear entailment, type-level IV sizes",
 "C14": "sibling agreement of interpreted summaries; who-implements table for constructors and aliases",
 "C15": "dependence-kind analysis (none/linear/through-cipher) on kernel summary terms",
 "C16": "type-tree ownership rule, field-wise Clone by interpretation, statics/attributes tables, callee allow-list, positive controls",
 "C17": "taint dataflow in fmt bodies + dominator rule for zeroize calls in Drop (all-features facts), positive controls",
}
notes = {
 "C01": "T1-T4. Decides: one-step inversion from equal states for cbc/pcbc/ige/cfb/cfb8/ofb, parallel bodies == n-fold one-block (so multi-block driving inverts too), in-place == buffer-to-buffer for bytes and chaining state (so in-place driving inverts too), cts round trip per (k,d) case and cts bulk helpers for every width, buffered CFB pair incl. position, data-independence of keystream kernels (ctr x6, belt, ofb). Not decided: padded API (pad/unpad is dependency code), the dependency's block/byte drivers (T2).",
 "C02": "T1-T4. Both directions, arbitrary ciphertext (terms are functions of input and state only); parallel CBC decryption for symbolic width; in-place form; clones carry the chaining value.",
 "C03": "T1-T4. Block kernels, parallel CFB decryption, buffered CFB both paths incl. state import/export, CFB-8 shift register, in-place form; partial last block of one-shot CFB is dependency code (T2) - the kernel's output is byte-aligned linear in the input (checked under C15/C08).",
 "C04": "T1-T4; endianness of a flavour is read from its public type name (...BE/...LE). All block sizes that are a multiple of the counter size (symbolic chunk count).",
 "C05": "T1-T4. End-to-end terms computed for cipher width 1; every other width is covered by the helper obligation (two parallel groups + r single blocks == 2n+r sequential steps, n and r symbolic, also in place). Variant/scheme read from the public type name.",
 "C06": "T1-T4. Includes exact remaining-blocks report and block-position get/set (start offset).",
 "C07": "T1-T4, T2 for backends that override nothing (provided methods loop over the one-block kernel).",
 "C08": "T1-T4; the byte cursor of StreamCipherCoreWrapper is dependency code (T2): decided here are the repo-side obligations (keystream kernels data-independent, advancing by exactly one block, parallel == one-block; buffered CFB == stream definition incl. state invariant; empty piece identity; short/short, short/long, long/short composition).",
 "C09": "T1-T4. CTR resume is observational (same counter blocks at every offset).",
 "C10": "T1-T4. Only the block-position contract of the cores is decided; byte-offset arithmetic, try_current_pos overflow reporting and seek/apply interleavings live in cipher::StreamCipherCoreWrapper (not decided, T2).",
 "C11": "T1-T4. Known finding F2 (dependency): try_seek is not guarded by check_remaining. 'No counter value at two positions' is decided as: one-block kernel advances by one, parallel body == n-fold iterate of the one-block kernel as written (ctr x6, belt). 'buffers untouched on failure' is decided only as dominance of the check over the first keystream use.",
 "C12": "T1-T4. Exact within the abstraction: both aliasing modes are interpreted and compared; result must not mention the old output buffer.",
 "C13": "T1-T4. Gates, provided in-place and b2b wrappers (equal / longer / shorter output) interpreted for all six cts types; panic obligations of every interpreted body discharged; every body with a potential panic site must be interpreted. Not decided: padded decryption length errors and key/IV slice-length errors are produced inside cipher/crypto-common (only the sizes they compare against are decided).",
 "C14": "T1-T4, T2 for the byte-level wrapper. Construction from key bytes: no workspace type implements KeyInit/KeyIvInit itself (blanket impl).",
 "C15": "T1-T4. Dependence kinds are computed on summaries expressed over the public chaining value.",
 "C16": "T4. With forbid(unsafe_code) and owned fields, field-wise clones and no shared statics imply independence; determinism by callee allow-list.",
 "C17": "T4, T5. Known finding F3 (dependency): Debug of the 8 wrapper aliases prints unused keystream bytes. cts has no zeroize feature (outside the clause). Copies of state moved out of the object are outside the property.",
}
checks = []
for p in props:
    i = p['id']
    lvl = "other" if i in ("C11", "C17") else "proof"
    checks.append({
        "property_id": i,
        "quick_cmd": "./bin/check %s --tier quick" % i,
        "thorough_cmd": "./bin/check %s --tier thorough" % i,
        "evidence_file": "/verif/evidence/%s.json" % i,
        "replay_cmd_template": "./bin/check %s --replay {path}" % i,
        "engine": "bmsa",
        "level_claimed": {"category": lvl, "text": ("Static proof over the generic MIR extracted from /repo's real build: every obligation is discharged by normal-form equality of terms or entailment of linear facts, with cipher, block size, parallel width, lengths and data symbolic, so the verdict covers the whole quantifier rather than sampled instantiations." if lvl == "proof" else "Same static machinery; claimed as 'other' because some rule instances are refuted on the pinned dependency and reported as known findings (see known_findings.json), so not every obligation is discharged."), "design_ref": "DESIGN.md section 5, " + i},
        "level_note": notes[i],
        "technique": tech[i],
    })
m = {
 "version": 1,
 "setup_cmd": "cd /verif/bmsa/driver && CARGO_NET_OFFLINE=true cargo build --offline",
 "hooks": {"guard": "none", "enable": "no hooks: the analysis reads the unmodified build (rustc_private driver injected with RUSTC_WRAPPER under cargo +nightly check)", "baseline_off_cmd": "cd /repo && cargo test --workspace --no-fail-fast --offline", "source_commits": [], "add_only": True},
 "engines": [{"name": "bmsa", "path": "/verif/bmsa", "serves_properties": [p['id'] for p in props], "kind_free_text": "static analysis: rustc_private fact extraction (items + MIR) and a Python abstract interpreter / rule set over it"}],
 "checks": checks,
 "not_applicable": [],
 "notes": "One genuine defect repaired in /repo (fix: commit 7c6b458, F1: CS3 one-block double encryption). Two genuine defects in the pinned dependency `cipher` recorded as known findings (F2 -> C11, F3 -> C17). Seeded breaking changes and behaviour-preserving refactors used to test the checks are under seeded/ and seeded_benign/ (see the table at the end of DESIGN.md).",
}
json.dump(m, open('/verif/MANIFEST.json', 'w'), indent=1)
print("MANIFEST written")
