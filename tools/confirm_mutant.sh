#!/bin/bash
# developer tool: confirm a seeded mutant in its scratch worktree:
#   suite green with the patch, demo fails with the patch, demo passes without it.
# usage: tools/confirm_mutant.sh <worktree> <mutant dir> [extra cargo args for the demo]
WT=$1; MD=$2; shift 2; EXTRA="$@"
cd $WT || exit 2
git checkout -q -- . ; 
CR=$(grep '^+++ b/' $MD/patch.diff | head -1 | sed 's|+++ b/||; s|/.*||')
git apply $MD/patch.diff || { echo "APPLY FAILED"; exit 2; }
cargo test --workspace --offline >/tmp/confirm_suite.log 2>&1; SUITE=$?
mkdir -p $CR/tests; cp $MD/demo.rs $CR/tests/seeded_demo.rs
cargo test -p $CR --offline --test seeded_demo $EXTRA >/tmp/confirm_demo_mut.log 2>&1; DM=$?
git checkout -q -- .
cargo test -p $CR --offline --test seeded_demo $EXTRA >/tmp/confirm_demo_clean.log 2>&1; DC=$?
rm -f $CR/tests/seeded_demo.rs
echo "crate=$CR suite_with_mutant_rc=$SUITE demo_with_mutant_rc=$DM demo_clean_rc=$DC"
if [ $SUITE -eq 0 ] && [ $DM -ne 0 ] && [ $DC -eq 0 ]; then echo CONFIRMED; else echo NOT-CONFIRMED; fi
