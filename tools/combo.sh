#!/bin/bash
# developer tool: a seeded breaking change applied ON TOP OF a behaviour-preserving refactor of the
# same crate must still be reported by the check of the property it targets.
# usage: tools/combo.sh [max combos]   (uses /repo's working tree; do not run checks concurrently)
cd /verif
MAX=${1:-80}
n=0; miss=0
for b in seeded_benign/*/; do
  bid=$(basename $b)
  bfiles=$(grep '^+++ b/' $b/patch.diff | sed 's|+++ b/||' | cut -d/ -f1 | sort -u)
  for m in seeded/*/; do
    mid=$(basename $m); prop=${mid%-*}
    mfiles=$(grep '^+++ b/' $m/patch.diff | sed 's|+++ b/||' | cut -d/ -f1 | sort -u)
    # same crate touched by both
    same=0; for x in $bfiles; do for y in $mfiles; do [ "$x" = "$y" ] && same=1; done; done
    [ $same = 1 ] || continue
    # deterministic sample
    h=$(echo "$bid$mid" | md5sum | cut -c1-2); [ $((16#$h % 6)) = 0 ] || continue
    cat $b/patch.diff > /tmp/combo.diff
    (cd /repo && git apply /verif/$b/patch.diff 2>/dev/null && git apply --check /verif/$m/patch.diff 2>/dev/null); ok=$?
    if [ $ok = 0 ]; then (cd /repo && git apply /verif/$m/patch.diff && git diff > /tmp/combo.diff; git ls-files --others --exclude-standard | grep -v '^target' | while read f; do git add -N "$f"; done; git diff > /tmp/combo.diff; git reset -q; git checkout -- . ; git clean -fdq --exclude=target); else (cd /repo && git checkout -- . && git clean -fdq --exclude=target); continue; fi
    out=$(tools/try_mutant.sh /tmp/combo.diff $prop 2>&1 | head -1)
    n=$((n+1))
    if echo "$out" | grep -q "EXTRACT FAILED"; then echo "skip $mid on $bid (combination does not compile)"; n=$((n-1)); continue; fi
    if echo "$out" | grep -q "$prop rc=1"; then echo "ok   $mid on $bid"; else echo "MISS $mid on $bid: $out"; miss=$((miss+1)); fi
    [ $n -ge $MAX ] && break 2
  done
done
echo "combos=$n misses=$miss"
