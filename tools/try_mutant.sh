#!/bin/bash
# developer tool (not a registered check): apply a patch to /repo, run every quick check with
# evidence redirected to a scratch dir, print which properties raise a VIOLATION, undo the patch.
# usage: tools/try_mutant.sh <patch.diff> [props...]
set -u
PATCH=$(readlink -f "$1"); shift
PROPS=${@:-C01 C02 C03 C04 C05 C06 C07 C08 C09 C10 C11 C12 C13 C14 C15 C16 C17}
REPO=${BMSA_REPO:-/repo}; export BMSA_REPO=$REPO
VERIF=$(cd "$(dirname "$0")/.." && pwd)
cd $REPO || exit 2
if ! git diff --quiet; then echo "$REPO has uncommitted changes"; exit 2; fi
git apply "$PATCH" || { echo "patch does not apply"; exit 2; }
SCR=$(mktemp -d /tmp/bmsa-mut.XXXX)
cd $VERIF
python3 bmsa/facts.py default all-features >/dev/null 2>$SCR/extract.err || { echo "EXTRACT FAILED"; tail -5 $SCR/extract.err; }
echo $PROPS | tr ' ' '\n' | BMSA_EVIDENCE_DIR=$SCR xargs -P 8 -I{} sh -c './bin/check {} --tier quick > '$SCR'/{}.out 2>&1; echo "{} rc=$?"' | sort | tr '\n' ' '
echo
for p in $PROPS; do grep -A1 "^VIOLATION" $SCR/$p.out | grep "rule=" | sed "s/^/  $p:/" | cut -c1-260 | head -4; done
git -C $REPO checkout -- . && git -C $REPO clean -fdq --exclude=target
rm -rf $SCR
