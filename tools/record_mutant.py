#!/usr/bin/env python3
"""developer tool: store a confirmed seeded mutant under /verif/seeded/<id>/ and record which
registered checks report it.  usage: record_mutant.py <prop> <letter> <worktree> [demo extra args]"""
import json, os, re, shutil, subprocess, sys
prop, letter, wt = sys.argv[1:4]
out_letter = letter
rest = sys.argv[4:]
if "--as" in rest:
    i = rest.index("--as")
    out_letter = rest[i + 1]
    rest = rest[:i] + rest[i + 2:]
sys.argv = sys.argv[:4] + rest
extra = " ".join(rest)
src = os.path.join(wt, "MUTANTS", letter)
dst = os.path.join("/verif/seeded", "%s-%s" % (prop, out_letter))
os.makedirs(dst, exist_ok=True)
for f in ("patch.diff", "demo.rs", "README.md"):
    if os.path.exists(os.path.join(src, f)):
        shutil.copy(os.path.join(src, f), os.path.join(dst, f if f != "README.md" else "AUTHOR_NOTES.md"))
old = {}
if os.path.exists(os.path.join(dst, "meta.json")):
    old = json.load(open(os.path.join(dst, "meta.json")))
if os.path.isdir(wt):
    conf = subprocess.run(["/verif/tools/confirm_mutant.sh", wt, src] + sys.argv[4:], capture_output=True, text=True).stdout.strip().splitlines()
else:
    conf = None   # re-recording detection only: keep the stored confirmation
out = subprocess.run(["/verif/tools/try_mutant.sh", os.path.join(dst, "patch.diff")], capture_output=True, text=True, cwd="/verif").stdout
fired = {}
for line in out.splitlines():
    m = re.match(r"\s+(C\d+):\s+rule=(\S+) instance=(\S+)", line)
    if m:
        fired.setdefault(m.group(1), [])
        s = "%s %s" % (m.group(2), m.group(3))
        if s not in fired[m.group(1)]:
            fired[m.group(1)].append(s)
rcs = dict(re.findall(r"(C\d+) rc=(\d)", out))
notes = open(os.path.join(dst, "AUTHOR_NOTES.md")).read() if os.path.exists(os.path.join(dst, "AUTHOR_NOTES.md")) else ""
crate = (conf[-2].split()[0].split("=")[1] if len(conf) >= 2 else "?") if conf is not None else old.get("crate", "?")
meta = {
    "id": "%s-%s" % (prop, out_letter),
    "breaks_property": prop,
    "crate": crate,
    "origin": "independent sub-agent given only the property text and a scratch worktree",
    "needs_to_manifest": "see AUTHOR_NOTES.md (written by the author of the change)",
    "confirmed_by": ("tools/confirm_mutant.sh in the scratch worktree: " + " | ".join(conf[-2:])) if conf is not None else old.get("confirmed_by"),
    "demo_command": ("copy demo.rs to %s/tests/seeded_demo.rs; cargo test -p %s --offline --test seeded_demo %s" % (crate, crate, extra)) if conf is not None else old.get("demo_command"),
    "checks_run": "tools/try_mutant.sh (git -C /repo apply; every registered quick check; git -C /repo checkout -- .)",
    "detected_by_target_property_check": rcs.get(prop) == "1",
    "checks_exit_1": sorted(k for k, v in rcs.items() if v == "1"),
    "reports": fired,
}
json.dump(meta, open(os.path.join(dst, "meta.json"), "w"), indent=1)
print(meta["id"], "target detected:", meta["detected_by_target_property_check"], "exit1:", meta["checks_exit_1"])
for k, v in fired.items():
    if k == prop:
        print("   ", v[:3])
