//! Finding F1 (C05/C14), repaired by the `fix:` commit: on the original tree CbcCs3/EcbCs3 of a
//! one-block message are not plain CBC / a raw block encryption (the block cipher is applied twice).
use aes::Aes128;
use cipher::{BlockCipherEncrypt, InnerIvInit, KeyInit, crypto_common::InnerInit};
use cts::{CbcCs1, CbcCs2, CbcCs3, EcbCs3, Encrypt};

#[test]
fn f1_one_block_is_plain_cbc() {
    let key = [7u8; 16];
    let iv = [9u8; 16];
    let msg = *b"0123456789abcdef";
    let aes = Aes128::new(&key.into());
    let mut x = msg;
    for i in 0..16 { x[i] ^= iv[i]; }
    let mut cbc = x.into();
    aes.encrypt_block(&mut cbc);
    let mut ecb = msg.into();
    aes.encrypt_block(&mut ecb);
    let mut b1 = msg; CbcCs1::inner_iv_init(aes.clone(), &iv.into()).encrypt(&mut b1).unwrap();
    let mut b2 = msg; CbcCs2::inner_iv_init(aes.clone(), &iv.into()).encrypt(&mut b2).unwrap();
    let mut b3 = msg; CbcCs3::inner_iv_init(aes.clone(), &iv.into()).encrypt(&mut b3).unwrap();
    let mut e3 = msg; EcbCs3::inner_init(aes.clone()).encrypt(&mut e3).unwrap();
    println!("CbcCs1 one block == CBC: {}", b1[..] == cbc[..]);
    println!("CbcCs2 one block == CBC: {}", b2[..] == cbc[..]);
    println!("CbcCs3 one block == CBC: {}", b3[..] == cbc[..]);
    println!("EcbCs3 one block == ECB: {}", e3[..] == ecb[..]);
    assert!(b3[..] == cbc[..] && e3[..] == ecb[..]);
}
