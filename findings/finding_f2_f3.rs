//! Demonstrations of the two known findings in the pinned dependency cipher 0.5.0-pre.8
//! (run against the real code; kept under /verif/findings with the observed output).
use aes::Aes128;
use cipher::{KeyIvInit, StreamCipher, StreamCipherSeek};

type Ctr32 = ctr::Ctr32BE<Aes128>;

/// F2 (C11): seeking into the last block of a 32-bit flavour is not checked against the
/// remaining-blocks report; the block counter wraps and the next call reuses keystream silently.
#[test]
fn f2_seek_past_end_wraps_keystream() {
    let key = [0x42u8; 16];
    let iv = [0x24u8; 16];
    // keystream from offset 0
    let mut c0 = Ctr32::new(&key.into(), &iv.into());
    let mut ks0 = [0u8; 64];
    c0.apply_keystream(&mut ks0);

    let mut c = Ctr32::new(&key.into(), &iv.into());
    let pos: u64 = ((1u64 << 32) - 1) * 16 + 5; // inside block number 2^32-1: one block beyond the last legal one
    let r = c.try_seek(pos);
    println!("try_seek(((2^32)-1)*16+5) -> {:?}", r);
    println!("try_current_pos::<u64>() -> {:?}", c.try_current_pos::<u64>());
    let mut buf = [0u8; 43];
    let r2 = c.try_apply_keystream(&mut buf);
    println!("try_apply_keystream(43 bytes) -> {:?}", r2);
    // bytes 11.. of buf are keystream blocks 0,1 again
    let reused = buf[11..43] == ks0[0..32];
    println!("keystream after the seek equals keystream blocks 0,1 from offset 0: {}", reused);
    assert!(r.is_ok() && r2.is_ok() && reused, "finding F2 no longer reproduces");
}

/// F3 (C17): Debug of the byte-level wrapper prints the unused bytes of the current keystream block.
#[test]
fn f3_debug_prints_keystream() {
    let mut a = ctr::Ctr128BE::<Aes128>::new(&[1u8; 16].into(), &[2u8; 16].into());
    let mut b = ctr::Ctr128BE::<Aes128>::new(&[3u8; 16].into(), &[2u8; 16].into());
    let mut x = [0u8; 3];
    a.apply_keystream(&mut x);
    b.apply_keystream(&mut x);
    let (da, db) = (format!("{:?}", a), format!("{:?}", b));
    println!("key 1: {}", da);
    println!("key 3: {}", db);
    assert_ne!(da, db, "finding F3 no longer reproduces: Debug text does not depend on the key");
}
