"""Loop summarisation from one symbolic iteration (never unrolled).

Classes (DESIGN 4.4): element map (strided region writes), counter (x' = x + c),
last-value (x' independent of carried state), recurrence (x' = g(x, input_i)).
Anything else raises Undecided.
"""
from .lin import Lin, lin, ZERO, ONE, neg_cond
from . import terms as T
from .terms import Undecided
from .interp import Target, vbytes, vint, vsize
from . import prims


def split_path(path):
    for i, s in enumerate(path):
        if s[0] == "br":
            return path[:i], s, path[i + 1:]
    return path, None, ()


def value_names(v):
    """all free names (byte vars, int vars, size symbols) in a value."""
    k = v[0]
    if k == "bytes":
        return T.bvars(v[1]) | T.bsyms(v[1])
    if k == "int":
        return T.ivars(v[1]) | T.isyms(v[1])
    if k == "size":
        return v[1].symbols()
    if k in ("tuple",):
        s = set()
        for x in v[1]:
            s |= value_names(x)
        return s
    if k == "struct":
        s = set()
        for x in v[2].values():
            s |= value_names(x)
        return s
    if k == "enum":
        s = set()
        for x in v[4]:
            s |= value_names(x)
        return s
    if k == "bool":
        c = v[1]
        return T.csyms(c) if c[0] in ("ge", "lt", "eq", "ne", "and", "or", "not") else set()
    return set()


def vsub(v, venv, lenv, F):
    k = v[0]
    if k == "bytes":
        return vbytes(T.bsubst(v[1], venv, lenv, F))
    if k == "int":
        return vint(T.isubst(v[1], venv, lenv, F))
    if k == "size":
        return vsize(T.lsub(v[1], {a: b for a, b in lenv.items() if a != "__ivars__"}))
    if k == "tuple":
        return ("tuple", [vsub(x, venv, lenv, F) for x in v[1]])
    if k == "struct":
        return ("struct", v[1], {n: vsub(x, venv, lenv, F) for n, x in v[2].items()})
    if k == "enum":
        return ("enum", v[1], v[2], v[3], [vsub(x, venv, lenv, F) for x in v[4]])
    return v


def veq(a, b, F):
    if a == b:
        return True
    if a[0] != b[0]:
        return False
    if a[0] == "bytes":
        return T.bequal(a[1], b[1], F)
    if a[0] == "int":
        return T.iequal(a[1], b[1], F)
    if a[0] == "size":
        return F.prove_eq(a[1] - b[1])
    if a[0] == "ref":
        return a[1].key() == b[1].key()
    if a[0] == "tuple" and len(a[1]) == len(b[1]):
        return all(veq(x, y, F) for x, y in zip(a[1], b[1]))
    if a[0] == "struct" and a[1] == b[1] and set(a[2]) == set(b[2]):
        return all(veq(a[2][n], b[2][n], F) for n in a[2])
    if a[0] == "inout":
        return a[1].key() == b[1].key() and a[2].key() == b[2].key()
    if a[0] == "enum" and a[1:4] == b[1:4] and len(a[4]) == len(b[4]):
        return all(veq(x, y, F) for x, y in zip(a[4], b[4]))
    return False


def run_iteration(ip, st, fr, H, var, N, placeholders):
    s = st.fork()
    v = Lin.sym(var)
    s.F.add_ge(v)
    s.F.add_ge(N - 1 - v)
    s.F.saturate({var})
    s.loopmode[(fr.id, H)] = ("iter", var)
    s.wlog = []
    s.rlog = []
    for (cell, fpath), ph in placeholders.items():
        ip.store(s, Target(cell, fpath), ph)
    s.wlog = []
    c0 = len(s.conds)
    o0 = len(s.oblig)
    e0 = len(s.events)
    outs = ip.exec_from(s, fr, H, stop_at=H, start=True)
    res = []
    for kind, s2, _ in outs:
        if kind == "stop":
            res.append(s2)
        elif kind == "panic":
            st.oblig.append({"kind": "panic-path", "fn": fr.body["path"], "ok": False, "detail": "explicit panic reachable inside loop"})
        else:
            raise Undecided("early exit (%s) from loop in %s" % (kind, fr.body["path"]))
    if not res:
        raise Undecided("loop body never reaches the back edge in %s" % fr.body["path"])
    return res, c0, o0, e0


def merged_load(ip, outs, c0, tg, F):
    """value at tg at the end of the iteration, merged over (at most two complementary) paths."""
    vals = [ip.load(s, tg) for s in outs]
    if len(vals) == 1:
        return vals[0]
    if all(veq(vals[0], v, F) for v in vals[1:]):
        return vals[0]
    if len(vals) == 2:
        ca = outs[0].conds[c0:]
        cb = outs[1].conds[c0:]
        if len(ca) == 1 and len(cb) == 1 and (neg_cond(ca[0]) == cb[0] or neg_cond(cb[0]) == ca[0]):
            c = ca[0]
            a, b = vals
            if c[0] in ("ne", "lt") and cb[0][0] in ("eq", "ge"):
                c = cb[0]
                a, b = b, a
            if a[0] == "bytes" and b[0] == "bytes":
                ln = T.blen(a[1])
                return vbytes((("i", c, ln, a[1], b[1]),))
    raise Undecided("cannot merge loop-body paths at %r" % (tg,))


def summarise_loop(ip, st, fr, H):
    key = (fr.id, H)
    # 1. probe the iterator
    s0 = st.fork()
    s0.loopmode[key] = ("probe",)
    try:
        ip.exec_block(s0, fr, H)
        raise Undecided("loop at bb%d of %s is not driven by Iterator::next" % (H, fr.body["path"]))
    except prims.LoopProbe as lp:
        it = lp.it
    N = prims.iter_count(ip, st, it)
    if st.F.prove_eq(N):
        st.loopmode[key] = ("done",)
        return [st]
    if N.is_const() and 0 < N.c <= 3:
        return unroll_loop(ip, st, fr, H, N.c)
    var = T.fresh("$i")
    # 2. discovery pass
    outsA, c0, _, _ = run_iteration(ip, st, fr, H, var, N, {})
    carried = {}
    mapped = {}
    for s in outsA:
        for cell, path in s.wlog:
            if cell not in st.heap:
                continue
            fpath, br, rest = split_path(path)
            loc = (cell, fpath)
            if br is None or var not in br[1].symbols():
                carried[loc] = True
            else:
                mapped.setdefault(loc, []).append(br)
    for loc in carried:
        if loc in mapped:
            raise Undecided("location %r written both whole and element-wise in loop" % (loc,))
    # prefix relation: carried (cell, ()) subsumes (cell, ('f',x))
    # 3. placeholders
    ph = {}
    phname = {}
    pre = {}
    for loc in carried:
        cell, fpath = loc
        try:
            pv = ip.load(st, Target(cell, fpath))
        except Undecided:
            continue
        pre[loc] = pv
        if pv[0] == "bytes":
            nm = T.fresh("$ph")
            T.declare_var(nm, T.blen(pv[1]))
            ph[loc] = vbytes(T.bvar(nm))
            phname[loc] = nm
        elif pv[0] == "int":
            nm = T.fresh("$ph")
            ph[loc] = vint(T.ivar(pv[1][1], nm))
            phname[loc] = nm
        elif pv[0] == "size":
            nm = T.fresh("$ph")
            ph[loc] = vsize(Lin.sym(nm))
            phname[loc] = nm
    outs, c0, o0, e0 = run_iteration(ip, st, fr, H, var, N, ph)
    Fi = outs[0].F.copy() if len(outs) == 1 else st.F.copy()
    v = Lin.sym(var)
    if len(outs) != 1:
        Fi.add_ge(v)
        Fi.add_ge(N - 1 - v)
    # mapped regions (recomputed from pass B logs)
    mregion = {}
    for s in outs:
        for cell, path in s.wlog:
            if cell not in st.heap:
                continue
            fpath, br, rest = split_path(path)
            loc = (cell, fpath)
            if loc in carried or br is None:
                continue
            if var not in br[1].symbols():
                raise Undecided("unstable write region in loop")
            r = mregion.get(loc)
            if r is None:
                mregion[loc] = (br[1], br[2])
            else:
                # union of regions written in one iteration: keep the hull if contiguous
                lo, ln = r
                if Fi.prove_eq(br[1] - lo) and Fi.prove_eq(br[2] - ln):
                    continue
                if Fi.le(lo, br[1]) and Fi.le(br[1] + br[2], lo + ln):
                    continue
                if Fi.le(br[1], lo) and Fi.le(lo + ln, br[1] + br[2]):
                    mregion[loc] = (br[1], br[2])
                    continue
                raise Undecided("several regions of %r written per iteration" % (loc,))
    # reads of mapped locations must not look at earlier iterations' output
    for s in outs:
        for cell, path in s.rlog:
            fpath, br, rest = split_path(path)
            loc = (cell, fpath)
            if loc in mregion:
                if br is None:
                    raise Undecided("whole read of element-wise written %r inside loop" % (loc,))
                lo, ln = mregion[loc]
                if not Fi.le(lo, br[1]):
                    raise Undecided("loop iteration reads %r at %r, possibly written by an earlier iteration" % (loc, br[1]))
    # 4. end-of-iteration values
    g = {}
    for loc in carried:
        if loc not in pre:
            continue
        g[loc] = merged_load(ip, outs, c0, Target(loc[0], loc[1]), Fi)
    tmpl = {}
    for loc, (lo, ln) in mregion.items():
        tmpl[loc] = merged_load(ip, outs, c0, Target(loc[0], loc[1] + (("br", lo, ln),)), Fi)
    # 5. solve carried state
    names = {phname[l]: l for l in phname}
    V = {}       # loc -> value at start of iteration `var`
    final = {}   # loc -> value after the loop
    recs = {}
    pending = [l for l in g]
    progress = True

    def subst_resolved(val):
        venv = {}
        lenv = {}
        ivs = {}
        for l, vv in V.items():
            if l not in phname:
                continue
            nm = phname[l]
            if vv[0] == "bytes":
                venv[nm] = vv[1]
            elif vv[0] == "int":
                ivs[nm] = vv[1]
            elif vv[0] == "size":
                lenv[nm] = vv[1]
        if ivs:
            lenv["__ivars__"] = ivs
        if not venv and not lenv:
            return val
        return vsub(val, venv, lenv, Fi)

    n_ge1 = st.F.prove_ge(N - 1)
    while pending and progress:
        progress = False
        for loc in list(pending):
            gv = subst_resolved(g[loc])
            deps = value_names(gv) & set(names)
            unresolved = {d for d in deps if names[d] not in V}
            own = phname.get(loc)
            if not unresolved:
                # last-value
                if veq(gv, pre[loc], Fi):
                    V[loc] = pre[loc]
                    final[loc] = pre[loc]
                else:
                    prev = vsub(gv, {}, {var: v - 1}, Fi)
                    if gv[0] == "bytes" and pre[loc][0] == "bytes":
                        V[loc] = vbytes(T.bnorm((("i", ("eq", v), T.blen(gv[1]), pre[loc][1], prev[1]),), Fi))
                    else:
                        V[loc] = ("nonrep", loc)
                    if n_ge1:
                        final[loc] = vsub(gv, {}, {var: N - 1}, st.F)
                    elif gv[0] == "bytes" and pre[loc][0] == "bytes":
                        Fn = st.F.copy()
                        Fn.add_ge(N - 1)
                        last = vsub(gv, {}, {var: N - 1}, Fn)
                        final[loc] = vbytes(T.bnorm((("i", ("eq", N), T.blen(gv[1]), pre[loc][1], last[1]),), st.F))
                    elif loc[0][0] == "L" and loc[0][1] >= fr.id:
                        final[loc] = ("unknown", "loop temporary")
                    else:
                        raise Undecided("value of %r after a possibly empty loop" % (loc,))
                pending.remove(loc)
                progress = True
            elif unresolved == {own}:
                if gv[0] == "int":
                    w = gv[1][1]
                    d = T.isub(gv[1], T.ivar(w, own))
                    if not (T.ivars(d) & set(names)) and var not in T.isyms(d):
                        step = d
                        V[loc] = vint(T.iadd(pre[loc][1], _imul_size(step, v, w)))
                        final[loc] = vint(T.iadd(pre[loc][1], _imul_size(step, N, w)))
                        pending.remove(loc)
                        progress = True
                        continue
                if gv[0] == "size":
                    d = gv[1] - Lin.sym(own)
                    if own not in d.symbols() and var not in d.symbols() and not (d.symbols() & set(names)):
                        V[loc] = vsize(pre[loc][1] + d * v)
                        final[loc] = vsize(pre[loc][1] + d * N)
                        pending.remove(loc)
                        progress = True
                        continue
                if gv[0] == "bytes":
                    # recurrence; outputs are the mapped templates mentioning the state
                    outs_using = [l for l, tv in tmpl.items() if own in value_names(subst_resolved(tv))]
                    if len(outs_using) > 1:
                        raise Undecided("recurrence state feeds several output arrays")
                    if outs_using:
                        ol = outs_using[0]
                        otv = subst_resolved(tmpl[ol])
                        step_out = otv[1]
                        elen = mregion[ol][1]
                    else:
                        ol = None
                        step_out = gv[1]
                        elen = T.blen(gv[1])
                    rid = T.mkrec(pre[loc][1], gv[1], step_out, elen, own, var, Fi)
                    recs[loc] = (rid, ol)
                    V[loc] = vbytes(T.rec_state(rid, v, Fi))
                    final[loc] = vbytes(T.rec_state(rid, N, st.F))
                    if ol is not None:
                        tmpl[ol] = vbytes(T.rec_out(rid, v, Fi))
                    pending.remove(loc)
                    progress = True
                    continue
    if pending:
        raise Undecided("carried loop state %r is not a counter, last-value or single recurrence" % (pending,))
    # 6. post state
    sp = st
    for s in outs:
        sp.oblig.extend(s.oblig[o0:])
    ev = []
    for s in outs:
        ev.extend(s.events[e0:])
    if ev:
        sp.events.append(("loop", var, N, ev))
    for loc, (lo, ln) in mregion.items():
        tv = subst_resolved(tmpl[loc])
        if tv[0] != "bytes":
            raise Undecided("element template is %s" % tv[0])
        if any(nm in value_names(tv) for nm in names):
            raise Undecided("element template still mentions carried state")
        base = T.lsub(lo, {var: ZERO})
        if not st.F.prove_eq((lo - base) - v * ln) and not Fi.prove_eq((lo - base) - v * ln):
            raise Undecided("element stride %r differs from element length %r" % (lo - base, ln))
        if var in ln.symbols():
            raise Undecided("element length depends on the index")
        m = T.bnorm((("m", var, ZERO, N, ln, tv[1]),), st.F)
        ip.store(sp, Target(loc[0], loc[1] + (("br", base, N * ln),)), vbytes(m))
    for loc, fv in final.items():
        if any(nm in value_names(fv) for nm in names):
            raise Undecided("final loop value still mentions carried state")
        ip.store(sp, Target(loc[0], loc[1]), fv)
    sp.loopmode[key] = ("done",)
    return [sp]


def _imul_size(step, cnt, w):
    """step * cnt (cnt a size Lin) as integer term mod 2^w; step must be constant."""
    if step[3]:
        raise Undecided("non-constant counter step")
    c = step[2]
    cnt = lin(cnt)
    if cnt.is_const():
        return T.iconst(w, c * cnt.c)
    return T.imulc(T.isize(w, cnt), c)


def unroll_loop(ip, st, fr, H, n):
    """loops whose trip count is a literal constant <= 3 are executed iteration by iteration."""
    key = (fr.id, H)
    states = [st]
    for k in range(n):
        nxt = []
        for s in states:
            # inner loops finished in the previous iteration must run again
            for kk in [x for x, m in s.loopmode.items() if x[0] == fr.id and m[0] == "done"]:
                del s.loopmode[kk]
            s.loopmode[key] = ("iterk", k)
            outs = ip.exec_from(s, fr, H, stop_at=H, start=True)
            for kind, s2, _ in outs:
                if kind == "stop":
                    nxt.append(s2)
                elif kind == "panic":
                    st.oblig.append({"kind": "panic-path", "fn": fr.body["path"], "ok": False, "detail": "explicit panic reachable inside loop"})
                else:
                    raise Undecided("early exit (%s) from loop in %s" % (kind, fr.body["path"]))
        states = nxt
        if len(states) > 16:
            raise Undecided("too many paths while unrolling loop in %s" % fr.body["path"])
    for s in states:
        s.loopmode[key] = ("done",)
    return states
