"""Loop summarisation from one symbolic iteration (never unrolled).

Classes (DESIGN 4.4): element map (strided region writes), counter (x' = x + c),
last-value (x' independent of carried state), recurrence (x' = g(x, input_i)).
Anything else raises Undecided.
"""
import re

from .lin import Lin, lin, ZERO, ONE, neg_cond, Facts
Facts_EMPTY = Facts()
from . import terms as T
from .terms import Undecided
from .interp import Target, vbytes, vint, vsize
from . import prims


class PeelFirst(Undecided):
    """carried state of a shape without placeholders (an Option, a bool, ...) changes in the body:
    the first iteration has to be executed on its own."""


def split_path(path):
    for i, s in enumerate(path):
        if s[0] == "br":
            return path[:i], s, path[i + 1:]
    return path, None, ()


def value_names(v):
    """all free names (byte vars, int vars, size symbols) in a value."""
    k = v[0]
    if k == "bytes":
        return T.bvars(v[1]) | T.bsyms(v[1])
    if k == "int":
        return T.ivars(v[1]) | T.isyms(v[1])
    if k == "size":
        return v[1].symbols()
    if k == "ref":
        sy = set()
        for st_ in v[1].path:
            if st_[0] == "br":
                sy |= st_[1].symbols() | st_[2].symbols()
        return sy
    if k in ("inout", "iobuf"):
        sy = set()
        for tg in v[1:3]:
            sy |= value_names(("ref", tg))
        return sy
    if k in ("tuple",):
        s = set()
        for x in v[1]:
            s |= value_names(x)
        return s
    if k == "struct":
        s = set()
        for x in v[2].values():
            s |= value_names(x)
        return s
    if k == "enum":
        s = set()
        for x in v[4]:
            s |= value_names(x)
        return s
    if k == "bool":
        c = v[1]
        return T.csyms(c) if c[0] in ("ge", "lt", "eq", "ne", "and", "or", "not") else set()
    return set()


def vsub(v, venv, lenv, F):
    k = v[0]
    if k == "bytes":
        return vbytes(T.bsubst(v[1], venv, lenv, F))
    if k == "int":
        return vint(T.isubst(v[1], venv, lenv, F))
    if k == "size":
        return vsize(T.lsub(v[1], {a: b for a, b in lenv.items() if not a.startswith("__")}))
    if k == "tuple":
        return ("tuple", [vsub(x, venv, lenv, F) for x in v[1]])
    if k == "struct":
        return ("struct", v[1], {n: vsub(x, venv, lenv, F) for n, x in v[2].items()})
    if k == "enum":
        return ("enum", v[1], v[2], v[3], [vsub(x, venv, lenv, F) for x in v[4]])
    if k == "ref":
        return ("ref", _tsub(v[1], lenv))
    if k == "inout":
        return ("inout", _tsub(v[1], lenv), _tsub(v[2], lenv))
    if k == "iobuf":
        le = {a: b for a, b in lenv.items() if not a.startswith("__")}
        return ("iobuf", _tsub(v[1], lenv), _tsub(v[2], lenv), T.lsub(v[3], le))
    return v


def _tsub(tg, lenv):
    le = {a: b for a, b in lenv.items() if not a.startswith("__")}
    if not le:
        return tg
    return Target(tg.cell, tuple((("br", T.lsub(st_[1], le), T.lsub(st_[2], le)) if st_[0] == "br" else st_) for st_ in tg.path))


def veq(a, b, F):
    if a == b:
        return True
    if a[0] != b[0]:
        return False
    if a[0] == "bytes":
        return T.bequal(a[1], b[1], F)
    if a[0] == "int":
        return T.iequal(a[1], b[1], F)
    if a[0] == "size":
        return F.prove_eq(a[1] - b[1])
    if a[0] == "ref":
        if a[1].key() == b[1].key():
            return True
        if a[1].cell != b[1].cell or len(a[1].path) != len(b[1].path):
            return False
        for x, y in zip(a[1].path, b[1].path):
            if x[0] != y[0]:
                return False
            if x[0] == "br":
                if not (F.prove_eq(x[1] - y[1]) and F.prove_eq(x[2] - y[2])):
                    return False
            elif x != y:
                return False
        return True
    if a[0] == "tuple" and len(a[1]) == len(b[1]):
        return all(veq(x, y, F) for x, y in zip(a[1], b[1]))
    if a[0] == "struct" and a[1] == b[1] and set(a[2]) == set(b[2]):
        return all(veq(a[2][n], b[2][n], F) for n in a[2])
    if a[0] == "inout":
        return a[1].key() == b[1].key() and a[2].key() == b[2].key()
    if a[0] == "enum" and a[1:4] == b[1:4] and len(a[4]) == len(b[4]):
        return all(veq(x, y, F) for x, y in zip(a[4], b[4]))
    return False


def ranged_ref(ip, st, pv):
    """a reference to a whole byte buffer as the reference to its full range (so that a slice variable
    initialised from an array and then advanced has one shape)."""
    if pv[0] == "ref" and not (pv[1].path and pv[1].path[-1][0] == "br"):
        try:
            tv = ip.load(st, pv[1], log=False)
            if tv[0] == "bytes":
                return ("ref", ip.br(pv[1], ZERO, T.blen(tv[1])))
        except Undecided:
            pass
    return pv


def run_iteration(ip, st, fr, H, var, N, placeholders, region=None, cont=None, runner=None, lenient=False):
    """one symbolic iteration.  lenient: paths that leave the loop are dropped instead of refused --
    only for *discovering* candidate closed forms; the summary itself is always computed strictly,
    so a candidate is kept only if no iteration can leave the loop under it."""
    s = st.fork()
    v = Lin.sym(var)
    s.F.add_ge(v)
    if N is not None:
        s.F.add_ge(N - 1 - v)
    s.F.saturate({var})
    if H is not None:
        s.loopmode[(fr.id, H)] = ("iter", var) if region is None else ("while", var)
    s.wlog = []
    s.rlog = []
    for (cell, fpath), ph in placeholders.items():
        ip.store(s, Target(cell, fpath), ph)
    s.wlog = []
    s.rbw = set()
    c0 = len(s.conds)
    o0 = len(s.oblig)
    e0 = len(s.events)
    if runner is not None:
        outs = [("stop", s2, None) for s2 in runner(s, Lin.sym(var))]
    else:
        outs = ip.exec_from(s, fr, H, stop_at=H, start=True, region=region)
    res = []
    for kind, s2, _ in outs:
        if kind == "stop":
            res.append(s2)
        elif kind == "exit" and region is not None:
            # leaving a condition-driven loop: only through the negation of the continue condition
            extra = s2.conds[c0:]
            if len(extra) <= 1 or lenient:
                continue      # the only branch taken since the header is the loop condition itself
            raise Undecided("loop in %s has an exit other than its loop condition" % fr.body["path"])
        elif kind == "panic":
            st.oblig.append({"kind": "panic-path", "fn": fr.body["path"], "crate": fr.crate.name, "ok": False, "detail": "explicit panic reachable inside loop"})
        elif lenient and kind in ("exit", "return"):
            continue
        else:
            raise Undecided("early exit (%s) from loop in %s" % (kind, fr.body["path"]))
    if not res:
        raise Undecided("loop body never reaches the back edge in %s" % fr.body["path"])
    return res, c0, o0, e0


def merged_load(ip, outs, c0, tg, F):
    """value at tg at the end of the iteration, merged over (at most two complementary) paths."""
    vals = [ip.load(s, tg, log=False) for s in outs]
    if len(vals) == 1:
        return vals[0]
    if all(veq(vals[0], v, F) for v in vals[1:]):
        return vals[0]
    if len(vals) == 2:
        ca = outs[0].conds[c0:]
        cb = outs[1].conds[c0:]
        if len(ca) == 1 and len(cb) == 1 and (neg_cond(ca[0]) == cb[0] or neg_cond(cb[0]) == ca[0]):
            c = ca[0]
            a, b = vals
            if c[0] in ("ne", "lt") and cb[0][0] in ("eq", "ge"):
                c = cb[0]
                a, b = b, a
            if a[0] == "bytes" and b[0] == "bytes":
                ln = T.blen(a[1])
                return vbytes((("i", c, ln, a[1], b[1]),))
    raise Undecided("cannot merge loop-body paths at %r" % (tg,))


def summarise_loop(ip, st, fr, H):
    key = (fr.id, H)
    # 1. probe the iterator
    s0 = st.fork()
    s0.loopmode[key] = ("probe",)
    region = None
    cont = None
    affine = {}
    var = T.fresh("$i")
    is_iter = True
    try:
        blk = fr.body["blocks"][H]
        t = blk["term"]
        if not (t["k"] == "call" and t["func"]["k"] == "const" and "fn" in t["func"] and t["func"]["fn"]["name"] == "next"):
            is_iter = False
        else:
            ip.exec_block(s0, fr, H)
            is_iter = False
    except prims.LoopProbe as lp:
        it = lp.it
        it_tg = lp.tg
    if is_iter:
        # an iterator with a seam (chain): one loop per segment, the iterator cell holding a window
        if it_tg is not None and prims.iter_breaks(ip, st, it):
            results = []
            for s0, segs in prims.iter_segments(ip, st, it):
                if len(segs) == 1:
                    results.extend(_summarise_core(ip, s0, fr, H, segs[0][1], var, {}, None, None, None, True))
                    continue
                states = [s0]
                for lo, cnt in segs:
                    nxt = []
                    for s in states:
                        for kk in [x for x, m in s.loopmode.items() if x[0] == fr.id and m[0] == "done"]:
                            del s.loopmode[kk]
                        ip.store(s, it_tg, ("iter", "win", it, lo, cnt))
                        nxt.extend(_summarise_core(ip, s, fr, H, cnt, T.fresh("$i"), {}, None, None, None, True))
                    states = nxt
                results.extend(states)
            return results
        N = prims.iter_count(ip, st, it)
        try:
            return _summarise_core(ip, st, fr, H, N, var, affine, region, cont, None, is_iter)
        except PeelFirst:
            if it_tg is None:
                raise
        # peel: iteration 0 on its own, then the rest of the iterator as a window
        results = []
        for s0, nonempty in prims.fork_on(st, ("ge", N - 1)):
            if not nonempty:
                s0.loopmode[key] = ("done",)
                results.append(s0)
                continue
            s0.loopmode[key] = ("iterk", 0)
            outs = ip.exec_from(s0, fr, H, stop_at=H, start=True)
            for kind, s1, _ in outs:
                if kind == "panic":
                    st.oblig.append({"kind": "panic-path", "fn": fr.body["path"], "crate": fr.crate.name, "ok": False, "detail": "explicit panic reachable inside loop"})
                    continue
                if kind != "stop":
                    raise Undecided("early exit (%s) from loop in %s" % (kind, fr.body["path"]))
                for kk in [x for x, m in s1.loopmode.items() if x[0] == fr.id and (m[0] == "done" or x == key)]:
                    del s1.loopmode[kk]
                ip.store(s1, it_tg, ("iter", "win", it, ONE, N - 1))
                try:
                    results.extend(_summarise_core(ip, s1, fr, H, N - 1, T.fresh("$i"), {}, None, None, None, True))
                except PeelFirst as e:
                    raise Undecided(str(e))
        return results
    else:
        from .interp import natural_loop
        region = natural_loop(fr.body, H)
        res = while_trip_count(ip, st, fr, H, var, region)
        if res is None:
            st.loopmode[key] = ("done",)
            return [st]
        if isinstance(res, list):
            # trip count needed a case split: summarise each case separately
            out = []
            for s2 in res:
                out.extend(summarise_loop(ip, s2, fr, H))
            return out
        N, affine = res
        cont = True
    return _summarise_core(ip, st, fr, H, N, var, affine, region, cont, None, is_iter)


def summarise_call_loop(ip, st, fr, N, runner):
    """a loop expressed as a call per element (Iterator::for_each): runner(state, index) -> states."""
    N = lin(N)
    try:
        return _summarise_core(ip, st, fr, None, N, T.fresh("$i"), {}, None, None, runner, True)
    except PeelFirst:
        pass
    # peel: element 0 on its own, then the rest with the index shifted by one
    results = []
    for s0, nonempty in prims.fork_on(st, ("ge", N - 1)):
        if not nonempty:
            results.append(s0)
            continue
        for s1 in runner(s0, ZERO):
            try:
                results.extend(_summarise_core(ip, s1, fr, None, N - 1, T.fresh("$i"), {}, None, None,
                                               lambda s, idx: runner(s, lin(idx) + 1), True))
            except PeelFirst as e:
                raise Undecided(str(e))
    return results


def _slice_elem_size(ip, fr, loc):
    """element size (an int > 1) when loc is a local of this frame declared `&[T]` / `&mut [T]` with a
    multi-byte T; else 1.  Offsets and lengths of such a slice variable are multiples of it."""
    cell, fpath = loc
    if fpath or cell[0] != "L" or len(cell) < 3 or cell[1] != fr.id:
        return 1
    try:
        t = fr.crate.types[fr.body["locals"][cell[2]]["ty"]]
        if t["k"] != "ref":
            return 1
        inner = fr.crate.types[t["inner"]]
        if inner["k"] != "slice":
            return 1
        e = ip.sizeof(fr.crate, inner["inner"])
    except (IndexError, KeyError, TypeError, Undecided):
        return 1
    return e.c if e.is_const() and e.c > 1 else 1


def _sized_ref_local(fr, loc):
    """is loc a local of this frame declared as a reference to a SIZED byte type (not a slice)?"""
    cell, fpath = loc
    if fpath or cell[0] != "L" or len(cell) < 3 or cell[1] != fr.id:
        return False
    try:
        t = fr.crate.types[fr.body["locals"][cell[2]]["ty"]]
    except (IndexError, KeyError, TypeError):
        return False
    if t["k"] != "ref":
        return False
    inner = fr.crate.types[t["inner"]]
    return inner["k"] in ("adt", "array", "alias") and not inner.get("adt", "").endswith("InOutBuf")


def _discover_affine(ip, st, fr, H, N, var, region, cont, runner, exclude=frozenset()):
    """{loc: affine description} of the sizes / slice references written in the loop body whose new
    value is the old one plus a constant (independent of the index and of every other carried value)."""
    try:
        outsA, _, _, _ = run_iteration(ip, st, fr, H, var, N, {}, region, cont, runner, lenient=True)
    except Undecided:
        return {}
    W = []
    for s in outsA:
        for cell, path in s.wlog:
            if cell in st.heap:
                fpath, br, rest = split_path(path)
                if br is None and not rest and (cell, fpath) not in W and (cell, fpath) not in exclude:
                    W.append((cell, fpath))
    ph = {}
    syms = {}
    coef = {}
    iters = {}
    refseq = {}
    for loc in W:
        try:
            pv = ranged_ref(ip, st, ip.load(st, Target(loc[0], loc[1]), log=False))
        except Undecided:
            continue
        if pv[0] == "ref" and pv[1].path and pv[1].path[-1][0] == "br":
            # a reference to a fixed-size block that the body re-points (`prev = ct`): if what it is
            # left pointing at is a function g(v) of the index alone, its value at the start of
            # iteration v is g(v-1) -- provided the pre-loop value is g(-1), else peel iteration 0
            vals = []
            for s1 in outsA:
                try:
                    vals.append(ip.load(s1, Target(loc[0], loc[1]), log=False))
                except Undecided:
                    vals.append(None)
            gA = vals[0] if vals and all(x is not None and veq(x, vals[0], s1.F) for x in vals) else None
            if gA is not None and gA[0] == "ref" and gA[1].path and gA[1].path[-1][0] == "br" and not veq(gA, pv, st.F) \
                    and (_sized_ref_local(fr, loc) or st.F.prove_eq(gA[1].path[-1][2] - pv[1].path[-1][2])):
                names_ = value_names(gA)
                if var in names_ and not any(nm.startswith("$") and nm != var for nm in names_):
                    if veq(vsub(gA, {}, {var: lin(-1)}, st.F), pv, st.F):
                        refseq[loc] = ("refseq", gA, var)
                        continue
                    if any(loc[0] in (s_.rbw or ()) for s_ in outsA):
                        raise PeelFirst("reference %r is re-pointed inside the loop" % (loc,))
        if pv[0] == "size":
            nm = T.fresh("$a")
            ph[loc] = vsize(Lin.sym(nm))
            syms[nm] = (loc, 0, pv[1])
        elif pv[0] == "ref" and pv[1].path and pv[1].path[-1][0] == "br":
            n1, n2 = T.fresh("$a"), T.fresh("$a")
            tg = pv[1]
            e_ = _slice_elem_size(ip, fr, loc)
            if e_ > 1:
                coef[n1] = coef[n2] = e_      # placeholders count ELEMENTS of a multi-byte slice
            ph[loc] = ("ref", Target(tg.cell, tg.path[:-1] + (("br", Lin.sym(n1) * e_, Lin.sym(n2) * e_),)))
            syms[n1] = (loc, 1, tg.path[-1][1])
            syms[n2] = (loc, 2, tg.path[-1][2])
        elif pv[0] == "iter" and pv[1] != "ref":
            # an iterator stepped by hand in the body (`it.next()` once per iteration): a window that
            # has consumed `nm` items so far
            try:
                inner, lo0, cnt0 = (pv[2], pv[3], pv[4]) if pv[1] == "win" else (pv, ZERO, prims.iter_count(ip, st, pv))
            except Undecided:
                continue
            nm = T.fresh("$a")
            ph[loc] = ("iter", "win", inner, lo0 + Lin.sym(nm), cnt0 - Lin.sym(nm))
            iters[loc] = (nm, inner, lo0, cnt0)
    if not ph:
        return dict(refseq)
    # candidate invariants of the placeholders (verified from the strides below): a size stays
    # non-negative; a slice variable is consumed from the front (start >= original start, same end)
    sG = st.fork()
    guessed = []
    for nm, (loc, which, orig) in syms.items():
        if which in (0, 2) and st.F.prove_ge(orig):
            sG.F.add_ge(Lin.sym(nm))
    for loc, pv in ph.items():
        if pv[0] == "ref":
            br = pv[1].path[-1]
            o = ranged_ref(ip, st, ip.load(st, Target(loc[0], loc[1]), log=False))[1].path[-1]
            sG.F.add_ge(br[1] - o[1])
            sG.F.add_eq(br[1] + br[2] - o[1] - o[2])
            guessed.append(loc)
    for loc, (nm, inner, lo0, cnt0) in iters.items():
        # guessed: some items consumed so far, at least one left (verified below: cnt0 >= stride * N)
        sG.F.add_ge(Lin.sym(nm))
        sG.F.add_ge(cnt0 - Lin.sym(nm) - 1)
    try:
        outs, _, _, _ = run_iteration(ip, sG, fr, H, var, N, dict(ph), region, cont, runner, lenient=True)
    except Undecided:
        return dict(refseq)
    iter_aff = {}
    for loc, (nm, inner, lo0, cnt0) in iters.items():
        vals = set()
        for s1 in outs:
            nv = ip.load(s1, Target(loc[0], loc[1]), log=False)
            if nv[0] == "iter" and nv[1] == "win" and nv[2] == inner:
                vals.add((nv[3] - lo0 - Lin.sym(nm), nv[4] - cnt0 + Lin.sym(nm)))
            else:
                vals.add(None)
        if len(vals) != 1 or None in vals:
            return dict(refseq)
        c_lo, c_cnt = vals.pop()
        if not c_lo.is_const() or c_lo.c != 1 or (c_lo + c_cnt) != ZERO:
            return dict(refseq)      # only one step per iteration is within the guess made above
        if not st.F.prove_ge(cnt0 - N):
            return dict(refseq)
        iter_aff[loc] = ("iter", inner, lo0, cnt0, c_lo)
    steps = {}
    for nm, (loc, which, orig) in syms.items():
        vals = set()
        for s1 in outs:
            try:
                nv = ip.load(s1, Target(loc[0], loc[1]), log=False)
            except Undecided:
                vals.add(None)
                continue
            if which == 0:
                vals.add(nv[1] - Lin.sym(nm) if nv[0] == "size" else None)
            else:
                ok = nv[0] == "ref" and nv[1].path and nv[1].path[-1][0] == "br"
                vals.add(nv[1].path[-1][which] - Lin.sym(nm) * coef.get(nm, 1) if ok else None)
        if len(vals) != 1:
            continue
        step = vals.pop()
        if step is None or (step.symbols() & (set(syms) | {var})) or any(x.startswith("$") for x in step.symbols()):
            continue
        steps[(loc, which)] = (orig, step)
    bad = []
    for loc in guessed:
        if (loc, 1) in steps and (loc, 2) in steps:
            s1_, s2_ = steps[(loc, 1)][1], steps[(loc, 2)][1]
            if st.F.prove_ge(s1_) and (s1_ + s2_) == ZERO:
                continue
        bad.append(loc)
    if bad:
        # the assumed shape ("consumed from the front") is not an invariant of these slice variables
        # (per-iteration temporaries such as the chunk just split off): guess again without them
        if len(exclude) + len(bad) > 24:
            return dict(refseq)
        return _discover_affine(ip, st, fr, H, N, var, region, cont, runner, frozenset(exclude) | frozenset(bad))
    affine = {}
    for loc, pv in ph.items():
        if pv[0] == "size" and (loc, 0) in steps:
            o, sp = steps[(loc, 0)]
            if sp != ZERO:
                affine[loc] = ("size", o, sp)
        elif pv[0] == "ref" and (loc, 1) in steps and (loc, 2) in steps:
            base = ranged_ref(ip, st, ip.load(st, Target(loc[0], loc[1]), log=False))[1]
            affine[loc] = ("ref", base, steps[(loc, 1)], steps[(loc, 2)])
    affine.update(iter_aff)
    affine.update(refseq)
    return affine


def _summarise_core(ip, st, fr, H, N, var, affine, region, cont, runner, is_iter):
    key = (fr.id, H) if H is not None else None
    if st.F.prove_eq(N):
        if key is not None:
            st.loopmode[key] = ("done",)
        return [st]
    if is_iter and N.is_const() and 0 < N.c <= 3:
        if runner is None:
            return unroll_loop(ip, st, fr, H, N.c)
        states = [st]
        for k in range(N.c):
            nxt = []
            for s in states:
                nxt.extend(runner(s, lin(k)))
            states = nxt
        return states
    # 1b. iterator-driven loops: counters and slice variables advancing by a constant stride are
    # given their closed form up front (as condition-driven loops get from their trip-count analysis),
    # so that `buf[i]` / `rest[..n]` inside the body is an element region of the index
    if is_iter and not affine:
        affine = _discover_affine(ip, st, fr, H, N, var, region, cont, runner)
    # 2. discovery pass
    fixed = {loc: affine_value(a, Lin.sym(var)) for loc, a in affine.items()}
    outsA, c0, _, _ = run_iteration(ip, st, fr, H, var, N, dict(fixed), region, cont, runner)
    carried = {}
    mapped = {}
    for s in outsA:
        for cell, path in s.wlog:
            if cell not in st.heap:
                continue
            fpath, br, rest = split_path(path)
            loc = (cell, fpath)
            if loc in affine:
                continue
            if br is None or var not in br[1].symbols():
                carried[loc] = True
            else:
                mapped.setdefault(loc, []).append(br)
    for loc in carried:
        if loc in mapped:
            raise Undecided("location %r written both whole and element-wise in loop" % (loc,))
    # prefix relation: carried (cell, ()) subsumes (cell, ('f',x))
    # 3. placeholders
    ph = {}
    phname = {}
    refph = {}
    sized_eqs = []
    pre = {}
    for loc in carried:
        cell, fpath = loc
        try:
            pv = ranged_ref(ip, st, ip.load(st, Target(cell, fpath), log=False))
        except Undecided:
            continue
        pre[loc] = pv
        if pv[0] == "iter":
            raise Undecided("iterator %r is stepped inside a loop body" % (loc,))
        if pv[0] == "bytes":
            nm = T.fresh("$ph")
            T.declare_var(nm, T.blen(pv[1]))
            ph[loc] = vbytes(T.bvar(nm))
            phname[loc] = nm
        elif pv[0] == "int":
            nm = T.fresh("$ph")
            ph[loc] = vint(T.ivar(pv[1][1], nm))
            phname[loc] = nm
        elif pv[0] == "size":
            nm = T.fresh("$ph")
            ph[loc] = vsize(Lin.sym(nm))
            phname[loc] = nm
        elif pv[0] == "ref" and pv[1].path and pv[1].path[-1][0] == "br":
            n1, n2 = T.fresh("$ph"), T.fresh("$ph")
            tg = pv[1]
            ph[loc] = ("ref", Target(tg.cell, tg.path[:-1] + (("br", Lin.sym(n1), Lin.sym(n2)),)))
            refph[loc] = (n1, n2)
            if _sized_ref_local(fr, loc):
                # `&Array<..>` / `&[u8; N]`: whatever it is re-pointed to has the same length
                sized_eqs.append(Lin.sym(n2) - tg.path[-1][2])
    ph2 = dict(ph)
    ph2.update(fixed)
    stB = st
    if sized_eqs:
        stB = st.fork()
        for e_ in sized_eqs:
            stB.F.add_eq(e_)
    outs, c0, o0, e0 = run_iteration(ip, stB, fr, H, var, N, ph2, region, cont, runner)
    Fi = outs[0].F.copy() if len(outs) == 1 else st.F.copy()
    v = Lin.sym(var)
    if len(outs) != 1:
        Fi.add_ge(v)
        Fi.add_ge(N - 1 - v)
    # mapped regions (recomputed from pass B logs)
    mregion = {}
    for s in outs:
        for cell, path in s.wlog:
            if cell not in st.heap:
                continue
            fpath, br, rest = split_path(path)
            loc = (cell, fpath)
            if loc in carried or br is None or loc in affine:
                continue
            if var not in br[1].symbols():
                raise Undecided("unstable write region in loop")
            r = mregion.get(loc)
            if r is None:
                mregion[loc] = (br[1], br[2])
            else:
                # union of regions written in one iteration: keep the hull if contiguous
                lo, ln = r
                if Fi.prove_eq(br[1] - lo) and Fi.prove_eq(br[2] - ln):
                    continue
                if Fi.le(lo, br[1]) and Fi.le(br[1] + br[2], lo + ln):
                    continue
                if Fi.le(br[1], lo) and Fi.le(lo + ln, br[1] + br[2]):
                    mregion[loc] = (br[1], br[2])
                    continue
                raise Undecided("several regions of %r written per iteration" % (loc,))
    def descending(loc):
        """the element written moves down by one element length per iteration (a reversed index)."""
        lo, ln = mregion[loc]
        base0 = T.lsub(lo, {var: ZERO})
        d = (lo - base0) + v * ln
        if Fi.prove_eq(ln):
            return False
        return d == ZERO or Fi.prove_eq(d)
    # reads of mapped locations must not look at earlier iterations' output
    for s in outs:
        for cell, path in s.rlog:
            fpath, br, rest = split_path(path)
            loc = (cell, fpath)
            if loc in mregion:
                if br is None:
                    raise Undecided("whole read of element-wise written %r inside loop" % (loc,))
                lo, ln = mregion[loc]
                if descending(loc):
                    # earlier iterations wrote above this element
                    if not Fi.le(br[1] + br[2], lo + ln):
                        raise Undecided("loop iteration reads %r at %r, possibly written by an earlier iteration" % (loc, br[1]))
                elif not Fi.le(lo, br[1]):
                    raise Undecided("loop iteration reads %r at %r, possibly written by an earlier iteration" % (loc, br[1]))
    # 4. end-of-iteration values
    g = {}
    for loc in carried:
        if loc not in pre:
            continue
        g[loc] = merged_load(ip, outs, c0, Target(loc[0], loc[1]), Fi)
    tmpl = {}
    for loc, (lo, ln) in mregion.items():
        tmpl[loc] = merged_load(ip, outs, c0, Target(loc[0], loc[1] + (("br", lo, ln),)), Fi)
    # 5. solve carried state
    names = {phname[l]: l for l in phname}
    for l, (n1, n2) in refph.items():
        names[n1] = l
        names[n2] = l
    V = {}       # loc -> value at start of iteration `var`
    final = {}   # loc -> value after the loop
    recs = {}
    pending = [l for l in g]
    progress = True

    def subst_resolved(val):
        venv = {}
        lenv = {}
        ivs = {}
        for l, vv in V.items():
            if l not in phname:
                continue
            nm = phname[l]
            if vv[0] == "bytes":
                venv[nm] = vv[1]
            elif vv[0] == "int":
                ivs[nm] = vv[1]
            elif vv[0] == "size":
                lenv[nm] = vv[1]
        for l, vv in V.items():
            if l in refph and vv[0] == "ref":
                br = vv[1].path[-1]
                lenv[refph[l][0]] = br[1]
                lenv[refph[l][1]] = br[2]
        if ivs:
            lenv["__ivars__"] = ivs
        if not venv and not lenv:
            return val
        return vsub(val, venv, lenv, Fi)

    n_ge1 = st.F.prove_ge(N - 1)
    int_affine = {}    # placeholder name -> (start, step) of an integer that advances by a constant
    while pending and progress:
        progress = False
        for loc in list(pending):
            gv = subst_resolved(g[loc])
            deps = value_names(gv) & set(names)
            unresolved = {d for d in deps if names[d] not in V}
            own = phname.get(loc)
            if loc in refph and (set(refph[loc]) & value_names(gv)):
                # slice reference advancing by a constant stride
                n1, n2 = refph[loc]
                if gv[0] == "ref" and gv[1].cell == pre[loc][1].cell and gv[1].path[:-1] == pre[loc][1].path[:-1] and gv[1].path and gv[1].path[-1][0] == "br":
                    br = gv[1].path[-1]
                    d1 = br[1] - Lin.sym(n1)
                    d2 = br[2] - Lin.sym(n2)
                    if not ((d1.symbols() | d2.symbols()) & (set(names) | {var})):
                        p0 = pre[loc][1].path[-1]
                        base = pre[loc][1]
                        V[loc] = ("ref", Target(base.cell, base.path[:-1] + (("br", p0[1] + d1 * v, p0[2] + d2 * v),)))
                        final[loc] = ("ref", Target(base.cell, base.path[:-1] + (("br", p0[1] + d1 * N, p0[2] + d2 * N),)))
                        pending.remove(loc)
                        progress = True
                        continue
                raise Undecided("slice variable %r does not advance by a constant stride" % (loc,))
            if not unresolved:
                # last-value
                if loc not in ph and pre[loc][0] not in ("bytes", "int", "size", "ref") and not veq(gv, pre[loc], Fi) \
                        and any(loc[0] in (s_.rbw or ()) for s_ in outs):
                    # the body ran with the PRE-LOOP value of this cell standing for its value in every
                    # iteration, which is wrong as soon as the body changes it
                    raise PeelFirst("carried %s value %r changes inside the loop" % (pre[loc][0], loc))
                if veq(gv, pre[loc], Fi):
                    V[loc] = pre[loc]
                    final[loc] = pre[loc]
                elif gv[0] == "ref" and pre[loc][0] == "ref":
                    # a reference re-pointed in every iteration (`prev = ct`): its value at the start of
                    # iteration v is what iteration v-1 left, provided the pre-loop value fits that
                    # pattern (g(-1) == pre); otherwise the first iteration has to be peeled off
                    if veq(vsub(gv, {}, {var: lin(-1)}, Fi), pre[loc], st.F):
                        V[loc] = vsub(gv, {}, {var: v - 1}, Fi)
                        final[loc] = vsub(gv, {}, {var: N - 1}, st.F)
                    elif any(loc[0] in (s_.rbw or ()) for s_ in outs):
                        raise PeelFirst("reference %r is re-pointed inside the loop" % (loc,))
                    else:
                        V[loc] = ("nonrep", loc)
                        final[loc] = vsub(gv, {}, {var: N - 1}, st.F) if n_ge1 else ("unknown", "loop temporary")
                else:
                    prev = vsub(gv, {}, {var: v - 1}, Fi)
                    if gv[0] == "bytes" and pre[loc][0] == "bytes":
                        V[loc] = vbytes(T.bnorm((("i", ("eq", v), T.blen(gv[1]), pre[loc][1], prev[1]),), Fi))
                    else:
                        V[loc] = ("nonrep", loc)
                    if n_ge1:
                        final[loc] = vsub(gv, {}, {var: N - 1}, st.F)
                    elif gv[0] == "bytes" and pre[loc][0] == "bytes":
                        Fn = st.F.copy()
                        Fn.add_ge(N - 1)
                        last = vsub(gv, {}, {var: N - 1}, Fn)
                        final[loc] = vbytes(T.bnorm((("i", ("eq", N), T.blen(gv[1]), pre[loc][1], last[1]),), st.F))
                    elif loc[0][0] == "L" and loc[0][1] >= fr.id:
                        final[loc] = ("unknown", "loop temporary")
                    else:
                        raise Undecided("value of %r after a possibly empty loop" % (loc,))
                pending.remove(loc)
                progress = True
            elif unresolved == {own}:
                if gv[0] == "int":
                    w = gv[1][1]
                    d = T.isub(gv[1], T.ivar(w, own))
                    if not (T.ivars(d) & set(names)) and var not in T.isyms(d):
                        step = d
                        V[loc] = vint(T.iadd(pre[loc][1], _imul_size(step, v, w)))
                        final[loc] = vint(T.iadd(pre[loc][1], _imul_size(step, N, w)))
                        int_affine[own] = (pre[loc][1], step)
                        pending.remove(loc)
                        progress = True
                        continue
                if gv[0] == "size":
                    d = gv[1] - Lin.sym(own)
                    if own not in d.symbols() and var not in d.symbols() and not (d.symbols() & set(names)):
                        V[loc] = vsize(pre[loc][1] + d * v)
                        final[loc] = vsize(pre[loc][1] + d * N)
                        pending.remove(loc)
                        progress = True
                        continue
                if gv[0] == "bytes":
                    # recurrence; outputs are the mapped templates mentioning the state
                    outs_using = [l for l, tv in tmpl.items() if own in value_names(subst_resolved(tv))]
                    if len(outs_using) > 1:
                        raise Undecided("recurrence state feeds several output arrays")
                    if outs_using:
                        ol = outs_using[0]
                        otv = subst_resolved(tmpl[ol])
                        step_out = otv[1]
                        elen = mregion[ol][1]
                    else:
                        ol = None
                        step_out = gv[1]
                        elen = T.blen(gv[1])
                    rid = T.mkrec(pre[loc][1], gv[1], step_out, elen, own, var, Fi)
                    recs[loc] = (rid, ol)
                    V[loc] = vbytes(T.rec_state(rid, v, Fi))
                    final[loc] = vbytes(T.rec_state(rid, N, st.F))
                    if ol is not None:
                        tmpl[ol] = vbytes(T.rec_out(rid, v, Fi))
                    pending.remove(loc)
                    progress = True
                    continue
    if pending:
        raise Undecided("carried loop state %r is not a counter, last-value or single recurrence" % (pending,))
    # 6. post state
    sp = st
    for s in outs:
        sp.oblig.extend(_counter_overflow(o, int_affine) for o in s.oblig[o0:])
    ev = []
    for s in outs:
        ev.extend(s.events[e0:])
    if ev:
        sp.events.append(("loop", var, N, ev))
    for loc, (lo, ln) in mregion.items():
        tv = subst_resolved(tmpl[loc])
        if tv[0] != "bytes":
            raise Undecided("element template is %s" % tv[0])
        if any(nm in value_names(tv) for nm in names):
            raise Undecided("element template still mentions carried state")
        if var in ln.symbols():
            raise Undecided("element length depends on the index")
        base = T.lsub(lo, {var: ZERO})
        if descending(loc):
            # re-index from the other end: element u = N-1-v sits at lo(N-1) + u*ln
            base = T.lsub(lo, {var: N - 1})
            tv = vsub(tv, {}, {var: N - 1 - v}, Fi)
        elif not st.F.prove_eq((lo - base) - v * ln) and not Fi.prove_eq((lo - base) - v * ln):
            # a prefix of every element of a wider stride is written (`block[..8]` of 16-byte blocks):
            # the element is the new prefix followed by what the cell held there before the loop
            S = T.lsub(lo, {var: ONE}) - base
            if var in S.symbols() or not Fi.prove_eq((lo - base) - v * S) or not Fi.prove_ge(S - ln - 1):
                raise Undecided("element stride %r differs from element length %r" % (lo - base, ln))
            sl = st.fork()
            sl.F = Fi.copy()
            old = ip.load(sl, Target(loc[0], loc[1] + (("br", lo + ln, S - ln),)), log=False)
            if old[0] != "bytes":
                raise Undecided("element stride %r differs from element length %r" % (lo - base, ln))
            tv = vbytes(T.bnorm(tv[1] + old[1], Fi))
            ln = S
        m = T.bnorm((("m", var, ZERO, N, ln, tv[1]),), st.F)
        ip.store(sp, Target(loc[0], loc[1] + (("br", base, N * ln),)), vbytes(m))
    for loc, a in affine.items():
        ip.store(sp, Target(loc[0], loc[1]), affine_value(a, N))
    for loc, fv in final.items():
        if any(nm in value_names(fv) for nm in names):
            raise Undecided("final loop value still mentions carried state")
        ip.store(sp, Target(loc[0], loc[1]), fv)
    if key is not None:
        sp.loopmode[key] = ("done",)
    return [sp]


_OVF = re.compile(r"^\('not', \('opaque', 'int-overflow', '\[(\$ph\d+)\]u(\d+)', '\[(\d+)\]u(\d+)'\)\)$")


def _counter_overflow(o, int_affine):
    """`n += k` on a loop-carried integer wider than usize, recorded with the placeholder of the value
    at the start of an arbitrary iteration: once the counter is solved as start + step*index with small
    constant start and step, start + step*index + k < 2^32 + 2^32*2^64 + 2^32 < 2^w for w >= 128
    (the index is a usize), so the debug-build overflow assertion cannot fire."""
    if o.get("ok") or o.get("kind") != "assert:Overflow":
        return o
    m = _OVF.match(o.get("detail", ""))
    if not m or m.group(1) not in int_affine:
        return o
    start, step = int_affine[m.group(1)]
    w = int(m.group(2))
    if w < 128 or int(m.group(4)) != w or start[1] != w or start[3] or step[3]:
        return o
    if start[2] < (1 << 32) and step[2] < (1 << 32) and int(m.group(3)) < (1 << 32):
        o = dict(o)
        o["ok"] = True
        o["detail"] += " [loop counter start + step*index: below 2^%d]" % w
    return o


def _imul_size(step, cnt, w):
    """step * cnt (cnt a size Lin) as integer term mod 2^w; step must be constant."""
    if step[3]:
        raise Undecided("non-constant counter step")
    c = step[2]
    cnt = lin(cnt)
    if cnt.is_const():
        return T.iconst(w, c * cnt.c)
    return T.imulc(T.isize(w, cnt), c)


def unroll_loop(ip, st, fr, H, n):
    """loops whose trip count is a literal constant <= 3 are executed iteration by iteration."""
    key = (fr.id, H)
    states = [st]
    for k in range(n):
        nxt = []
        for s in states:
            # inner loops finished in the previous iteration must run again
            for kk in [x for x, m in s.loopmode.items() if x[0] == fr.id and m[0] == "done"]:
                del s.loopmode[kk]
            s.loopmode[key] = ("iterk", k)
            outs = ip.exec_from(s, fr, H, stop_at=H, start=True)
            for kind, s2, _ in outs:
                if kind == "stop":
                    nxt.append(s2)
                elif kind == "panic":
                    st.oblig.append({"kind": "panic-path", "fn": fr.body["path"], "crate": fr.crate.name, "ok": False, "detail": "explicit panic reachable inside loop"})
                else:
                    raise Undecided("early exit (%s) from loop in %s" % (kind, fr.body["path"]))
        states = nxt
        if len(states) > 16:
            raise Undecided("too many paths while unrolling loop in %s" % fr.body["path"])
    for s in states:
        s.loopmode[key] = ("done",)
    return states


def while_trip_count(ip, st, fr, H, var, region):
    """trip count of a condition-driven loop whose condition is a linear test over variables that
    advance by constant strides (counters, slice references).  Returns None (zero iterations),
    (N, True) or a list of states (case split on whether the loop is entered)."""
    key = (fr.id, H)
    sA = st.fork()
    sA.loopmode[key] = ("while", var)
    sA.wlog = []
    outs = ip.exec_from(sA, fr, H, stop_at=H, start=True, region=region)
    stops = [s for k, s, _ in outs if k == "stop"]
    exits = [s for k, s, _ in outs if k == "exit"]
    if not stops:
        if not exits:
            raise Undecided("loop at bb%d of %s neither iterates nor exits" % (H, fr.body["path"]))
        return None
    W = []
    for s in stops:
        for cell, path in s.wlog:
            if cell in st.heap:
                fpath, br, rest = split_path(path)
                if (cell, fpath) not in W:
                    W.append((cell, fpath))
    ph = {}
    syms = {}
    coef = {}
    for loc in W:
        try:
            pv = ranged_ref(ip, st, ip.load(st, Target(loc[0], loc[1]), log=False))
        except Undecided:
            continue
        if pv[0] == "size":
            nm = T.fresh("$a")
            ph[loc] = vsize(Lin.sym(nm))
            syms[nm] = (loc, 0, pv[1])
        elif pv[0] == "ref" and pv[1].path and pv[1].path[-1][0] == "br":
            n1, n2 = T.fresh("$a"), T.fresh("$a")
            tg = pv[1]
            e_ = _slice_elem_size(ip, fr, loc)
            if e_ > 1:
                coef[n1] = coef[n2] = e_      # placeholders count ELEMENTS of a multi-byte slice
            ph[loc] = ("ref", Target(tg.cell, tg.path[:-1] + (("br", Lin.sym(n1) * e_, Lin.sym(n2) * e_),)))
            syms[n1] = (loc, 1, tg.path[-1][1])
            syms[n2] = (loc, 2, tg.path[-1][2])
    sB = st.fork()
    sB.loopmode[key] = ("while", var)
    # the placeholders stand for the values at the start of an arbitrary iteration: sizes and
    # lengths are non-negative there
    for nm, (loc, which, orig) in syms.items():
        if which in (0, 2) and st.F.prove_ge(orig):
            sB.F.add_ge(Lin.sym(nm))
    # candidate invariants of a slice variable consumed from the front (verified below from the
    # strides): start >= original start, end == original end
    guessed = []
    for loc, v in ph.items():
        if v[0] == "ref":
            br = v[1].path[-1]
            o = ranged_ref(ip, st, ip.load(st, Target(loc[0], loc[1]), log=False))[1].path[-1]
            sB.F.add_ge(br[1] - o[1])
            sB.F.add_eq(br[1] + br[2] - o[1] - o[2])
            guessed.append(loc)
    for loc, v in ph.items():
        ip.store(sB, Target(loc[0], loc[1]), v)
    c0 = len(sB.conds)
    outs = ip.exec_from(sB, fr, H, stop_at=H, start=True, region=region)
    stops = [s for k, s, _ in outs if k == "stop"]
    if not stops:
        raise Undecided("loop at bb%d of %s: no way around the loop from a symbolic state" % (H, fr.body["path"]))
    s1 = stops[0]
    if len(stops) == 1:
        conds = [c for c in s1.conds[c0:]]
        if not conds or any(c[0] not in ("ge", "lt") for c in conds):
            raise Undecided("loop condition of %s is not a conjunction of linear comparisons: %r" % (fr.body["path"], conds))
    else:
        # branches inside the body: every way around starts with the same loop condition and the
        # ways differ right after it (a compound loop condition would give a longer common prefix)
        cl = [s.conds[c0:] for s in stops]
        if any(not x for x in cl) or any(x[0] != cl[0][0] for x in cl) or cl[0][0][0] not in ("ge", "lt"):
            raise Undecided("loop at bb%d of %s: %d ways around the loop that do not share one linear loop condition" % (H, fr.body["path"], len(stops)))
        k = 1
        while all(len(x) > k for x in cl) and all(x[k] == cl[0][k] for x in cl):
            k += 1
        conds = list(cl[0][:k])
        if any(c[0] not in ("ge", "lt") for c in conds):
            raise Undecided("loop at bb%d of %s: loop condition is not a conjunction of linear comparisons" % (H, fr.body["path"]))
    Gs = [(c[1] if c[0] == "ge" else (-c[1] - 1)) for c in conds]
    G = Gs[0]
    for g_ in Gs[1:]:
        G = G + g_      # only its symbols are used below (which variables the condition mentions)
    # strides
    v = Lin.sym(var)
    env = {}
    steps = {}
    for nm, (loc, which, orig) in syms.items():
        step = None
        for sk in stops:
            nv = ip.load(sk, Target(loc[0], loc[1]), log=False)
            if which == 0:
                if nv[0] != "size":
                    raise Undecided("counter became %s" % nv[0])
                stepk = nv[1] - Lin.sym(nm)
            else:
                if nv[0] != "ref" or not nv[1].path or nv[1].path[-1][0] != "br":
                    raise Undecided("slice variable lost its range")
                stepk = nv[1].path[-1][which] - Lin.sym(nm) * coef.get(nm, 1)
            if step is not None and stepk != step:
                # advances differently on different ways around the loop: not affine
                step = Lin.sym(nm) * 0 + Lin.sym(var)
                break
            step = stepk
        if step.symbols() & (set(syms) | {var}):
            if nm in G.symbols():
                raise Undecided("loop condition depends on %r which does not advance by a constant stride" % (loc,))
            continue
        if coef.get(nm, 1) != 1:
            q_ = (orig + step * v).div_sym(coef[nm])
            if q_ is None:
                if nm in G.symbols():
                    raise Undecided("slice variable %r is not a whole number of elements" % (loc,))
                continue
            env[nm] = q_
        else:
            env[nm] = orig + step * v
        steps[(loc, which)] = (orig, step)
    if set(G.symbols()) & (set(syms) - set(env)):
        raise Undecided("loop condition mentions a non-affine variable")
    Gjs = [g_.subst(env) for g_ in Gs]
    Gj = Gjs[0]
    if len(Gjs) > 1:
        # a conjunction: the loop runs while the FIRST failing conjunct holds; usable when one conjunct
        # implies all the others at every iteration index (slices consumed in lockstep)
        Gj = None
        for cand in Gjs:
            Fc = st.F.copy()
            Fc.add_ge(v)
            Fc.add_ge(cand)
            if all(o is cand or Fc.prove_ge(o) for o in Gjs):
                Gj = cand
                break
        if Gj is None:
            raise Undecided("compound loop condition of %s: no conjunct implies the others" % fr.body["path"])
    G0 = Gj.subst({var: ZERO})
    G1 = Gj.subst({var: ONE})
    B = G0 - G1
    if (Gj - (G0 - B * v)) != ZERO:
        raise Undecided("loop condition is not linear in the iteration index")
    for loc in guessed:
        if (loc, 1) in steps and (loc, 2) in steps:
            s1_, s2_ = steps[(loc, 1)][1], steps[(loc, 2)][1]
            if not (st.F.prove_ge(s1_) and (s1_ + s2_) == ZERO):
                raise Undecided("slice variable %r is not consumed from the front" % (loc,))
        else:
            raise Undecided("slice variable %r does not advance by a constant stride" % (loc,))
    affine = {}
    for loc, pv in ph.items():
        if pv[0] == "size" and (loc, 0) in steps:
            o, sp = steps[(loc, 0)]
            affine[loc] = ("size", o, sp)
        elif pv[0] == "ref" and (loc, 1) in steps and (loc, 2) in steps:
            base = ranged_ref(ip, st, ip.load(st, Target(loc[0], loc[1]), log=False))[1]
            affine[loc] = ("ref", base, steps[(loc, 1)], steps[(loc, 2)])
    F = st.F
    if not F.prove_ge(B - 1):
        raise Undecided("loop in %s does not provably progress (stride %r)" % (fr.body["path"], B))
    if B == ONE:
        if F.prove_ge(G0):
            return (G0 + 1, affine)
        if F.prove_ge(-G0 - 1):
            return None
        if F.prove_ge(G0 + 1):
            # the count G0 + 1 is non-negative, possibly zero: no case split (as for iterator loops)
            return (G0 + 1, affine)
        s_in = st.fork()
        s_in.assume(("ge", G0))
        s_out = st
        s_out.assume(("lt", G0))
        return [x for x in (s_in, s_out) if not x.F.inconsistent()]
    if not F.prove_ge(G0 + B):
        raise Undecided("cannot bound the trip count of the loop in %s" % fr.body["path"])
    k, d = prims.decompose(st, G0 + B, B)
    return (k, affine)


def affine_value(a, j):
    """value of an affinely advancing variable at iteration j."""
    if a[0] == "size":
        return vsize(a[1] + a[2] * j)
    if a[0] == "iter":
        _, inner, lo0, cnt0, c = a
        return ("iter", "win", inner, lo0 + c * j, cnt0 - c * j)
    if a[0] == "refseq":
        # value at the start of iteration j = what iteration j-1 left (g(j-1)); also the value after
        # the loop for j = N
        return vsub(a[1], {}, {a[2]: lin(j) - 1}, Facts_EMPTY)
    base = a[1]
    (lo0, s1), (ln0, s2) = a[2], a[3]
    return ("ref", Target(base.cell, base.path[:-1] + (("br", lo0 + s1 * j, ln0 + s2 * j),)))
