"""Term domain of the abstract interpreter ("mode algebra").

Byte strings (BStr) are tuples of pieces:
  ('x', len, xs)                 XOR of sub-ranges: xs = ((atom, off), ...) ; () = zeros
  ('m', var, lo, hi, elen, tmpl) for var in [lo,hi): tmpl (length elen, may mention var)
  ('i', cond, len, a, b)         if cond then a else b   (cond over Lin, e.g. index test)
Atoms:
  ('var', name)            free byte string, length VARLEN[name]
  ('E', bstr) ('D', bstr)  block cipher applied to a block
  ('ib', endian, nbytes, iterm)   integer encoded as bytes
  ('rec', recid, which, idx)      which in {'out','st'}: value of recurrence recid at idx
  ('unk', tag)             unknown bytes (length VARLEN['?'+tag])
Integer terms (mod 2^w):  ('int', w, c, ((iatom, coeff), ...))
  iatoms: ('ivar', name) ('fb', endian, bstr) ('sz', Lin) ('iunk', tag)
"""
import itertools

from .lin import Lin, Facts, lin, ZERO, ONE, neg_cond


class Undecided(Exception):
    pass


class OrderFail(Undecided):
    def __init__(self, p, x):
        Undecided.__init__(self, "cannot order %r vs %r" % (p, x))
        self.p = p
        self.x = x


VARLEN = {}
_fresh = itertools.count()


def split_facts(F, c):
    """(F + c, F + not c), with provable symbol bounds made explicit."""
    F1 = F.copy()
    F1.add_cond(c)
    F0 = F.copy()
    F0.add_cond(neg_cond(c))
    if c[0] in ("ge", "lt", "eq", "ne"):
        syms = c[1].symbols()
        F1.saturate(syms)
        F0.saturate(syms)
    return F1, F0


def fresh(prefix="$j"):
    return "%s%d" % (prefix, next(_fresh))


def declare_var(name, length):
    VARLEN[name] = lin(length)
    return name


def akey(x):
    return repr(x)


# ------------------------------------------------------------------ constructors
def xpiece(length, xs):
    # cancel duplicates (x ^ x = 0)
    cnt = {}
    for a, o in xs:
        k = (a, o)
        cnt[k] = cnt.get(k, 0) ^ 1
    xs2 = tuple(sorted((k for k, v in cnt.items() if v), key=akey))
    return ("x", lin(length), xs2)


def bvar(name, off=ZERO, length=None):
    if length is None:
        length = VARLEN[name]
    return (xpiece(length, (((("var", name)), lin(off)),)),)


def bzero(length):
    return (xpiece(length, ()),)


def batom(atom, length, off=ZERO):
    return (xpiece(length, ((atom, lin(off)),)),)


def plen(p):
    k = p[0]
    if k == "x":
        return p[1]
    if k == "m":
        return (p[3] - p[2]) * p[4]
    if k == "i":
        return p[2]
    raise ValueError(p)


def blen(b):
    r = ZERO
    for p in b:
        r = r + plen(p)
    return r


def atom_len(a):
    k = a[0]
    if k == "var":
        return VARLEN[a[1]]
    if k in ("E", "D"):
        return blen(a[1])
    if k == "ib":
        return lin(a[2])
    if k == "rec":
        return REC[a[1]]["elen"]
    if k == "unk":
        return VARLEN["?" + a[1]]
    raise ValueError(a)


# ------------------------------------------------------------------ substitution
def lsub(l, lenv):
    return l.subst(lenv) if lenv else l


def csub(cond, lenv, venv=None, F=None):
    k = cond[0]
    if k in ("ge", "lt", "eq", "ne"):
        return (k, lsub(cond[1], lenv))
    if k in ("and", "or"):
        return (k,) + tuple(csub(c, lenv, venv, F) for c in cond[1:])
    if k == "not":
        return ("not", csub(cond[1], lenv, venv, F))
    return cond


def asub(a, venv, lenv, F):
    k = a[0]
    if k in ("E", "D"):
        inner = bsubst(a[1], venv, lenv, F)
        return ("blk", mkcipher(k, inner, F))
    if k == "ib":
        return ("atom", ("ib", a[1], a[2], isubst(a[3], venv, lenv, F)))
    if k == "rec":
        idx = lsub(a[3], lenv)
        if lenv and lenv.get("__unfold__"):
            r = REC[a[1]]
            if a[2] == "out":
                return ("blk", bsubst(r["out"], {"$rs": rec_state(a[1], idx, F)}, {"$ri": idx}, F))
            if F.prove_eq(idx):
                return ("blk", r["init"])
            if F.prove_ge(idx - 1):
                return ("blk", bsubst(r["st"], {"$rs": rec_state(a[1], idx - 1, F)}, {"$ri": idx - 1}, F))
        return ("atom", ("rec", a[1], a[2], idx))
    return ("atom", a)


def bsubst(b, venv, lenv, F):
    """substitute byte variables (name -> BStr) and size symbols (name -> Lin)."""
    if not venv and not lenv:
        return b
    out = ()
    for p in b:
        k = p[0]
        if k == "x":
            ln = lsub(p[1], lenv)
            acc = None
            plain = []
            for a, o in p[2]:
                o2 = lsub(o, lenv)
                if a[0] == "var" and venv and a[1] in venv:
                    piece = bslice(venv[a[1]], o2, ln, F)
                    acc = piece if acc is None else bxor(acc, piece, F)
                    continue
                r = asub(a, venv, lenv, F)
                if r[0] == "atom":
                    if a[0] == "ib":
                        r2 = ib_simplify(r[1], F)
                        if r2 is not None:
                            piece = bslice(r2, o2, ln, F)
                            acc = piece if acc is None else bxor(acc, piece, F)
                            continue
                    plain.append((r[1], o2))
                else:
                    piece = bslice(r[1], o2, ln, F)
                    acc = piece if acc is None else bxor(acc, piece, F)
            base = (xpiece(ln, plain),)
            if acc is not None:
                base = bxor(base, acc, F)
            out = out + base
        elif k == "m":
            var = p[1]
            lo, hi, el = lsub(p[2], lenv), lsub(p[3], lenv), lsub(p[4], lenv)
            F2 = F.copy()
            v = Lin.sym(var)
            F2.add_ge(v - lo)
            F2.add_ge(hi - 1 - v)
            le2 = dict(lenv or {})
            le2.pop(var, None)
            t = bsubst(p[5], venv, le2, F2)
            out = out + (("m", var, lo, hi, el, t),)
        elif k == "i":
            c = csub(p[1], lenv)
            if F.prove_cond(c):
                out = out + bsubst(p[3], venv, lenv, F)
            elif F.refute_cond(c):
                out = out + bsubst(p[4], venv, lenv, F)
            else:
                F1, F0 = split_facts(F, c)
                if F1.inconsistent():
                    out = out + bsubst(p[4], venv, lenv, F0)
                elif F0.inconsistent():
                    out = out + bsubst(p[3], venv, lenv, F1)
                else:
                    out = out + (("i", c, lsub(p[2], lenv), bsubst(p[3], venv, lenv, F1), bsubst(p[4], venv, lenv, F0)),)
    return bnorm(out, F)


def isubst(t, venv, lenv, F):
    if not venv and not lenv:
        return t
    _, w, c, ts = t
    r = iconst(w, c)
    for a, k in ts:
        if a[0] == "fb":
            a2 = ifrombytes(a[1], w, bsubst(a[2], venv, lenv, F), F)
            r = iadd(r, imulc(a2, k))
        elif a[0] == "sz":
            r = iadd(r, imulc(isize(w, lsub(a[1], lenv)), k))
        elif a[0] == "ivar" and lenv and a[1] in lenv.get("__ivars__", {}):
            r = iadd(r, imulc(lenv["__ivars__"][a[1]], k))
        elif a[0] == "ifn":
            args = tuple(isubst(x, venv, lenv, F) if (isinstance(x, tuple) and x and x[0] == "int") else (lsub(x, lenv) if isinstance(x, Lin) else x) for x in a[2])
            r = iadd(r, ("int", w, 0, ((("ifn", a[1], args), k % (1 << w)),)))
        else:
            r = iadd(r, ("int", w, 0, ((a, k % (1 << w)),)))
    return r


# ------------------------------------------------------------------ integer terms
def iconst(w, c):
    return ("int", w, c % (1 << w), ())


def ivar(w, name):
    return ("int", w, 0, ((("ivar", name), 1),))


def isize(w, l):
    """size value converted to a w-bit integer.  Reduction mod 2^w is a ring homomorphism on the
    integers a size form denotes, so the form is split into its monomials: `(j + 1) as u128`
    and `j as u128 + 1` get the same normal form."""
    l = lin(l)
    if l.is_const():
        return iconst(w, l.c)
    if not isinstance(l.c, int) or any(not isinstance(k, int) for _, k in l.t):
        return ("int", w, 0, ((("sz", l), 1),))
    d = {}
    for m, k in l.t:
        at = ("sz", Lin(0, ((m, 1),)))
        d[at] = (d.get(at, 0) + k) % (1 << w)
    ts = tuple(sorted(((at, k) for at, k in d.items() if k), key=akey))
    return ("int", w, l.c % (1 << w), ts)


def iadd(a, b):
    if a[1] != b[1]:
        raise Undecided("integer terms of different widths combined: u%d and u%d" % (a[1], b[1]))
    w = a[1]
    d = {}
    for at, k in a[3] + b[3]:
        d[at] = (d.get(at, 0) + k) % (1 << w)
    ts = tuple(sorted(((at, k) for at, k in d.items() if k), key=akey))
    return ("int", w, (a[2] + b[2]) % (1 << w), ts)


def imulc(a, c):
    w = a[1]
    ts = tuple(sorted(((at, (k * c) % (1 << w)) for at, k in a[3] if (k * c) % (1 << w)), key=akey))
    return ("int", w, (a[2] * c) % (1 << w), ts)


def isub(a, b):
    return iadd(a, imulc(b, -1))


def ifrombytes(endian, w, b, F):
    """integer (w bits) decoded from byte string b."""
    b = bnorm(b, F)
    if len(b) == 1 and b[0][0] == "x" and len(b[0][2]) == 1:
        (a, o), = b[0][2]
        if a[0] == "ib" and a[1] == endian and a[2] * 8 == w and o == ZERO:
            return a[3]
    return ("int", w, 0, ((("fb", endian, b), 1),))


def itobytes(endian, t, F=None):
    """byte string encoding integer term t."""
    w = t[1]
    if t[2] == 0 and len(t[3]) == 1:
        (a, k), = t[3]
        if k == 1 and a[0] == "fb" and a[1] == endian:
            return a[2]
    if not t[3] and t[2] == 0:
        return bzero(w // 8)
    return batom(("ib", endian, w // 8, t), w // 8)


def ib_simplify(atom, F):
    _, endian, nb, t = atom
    if t[2] == 0 and len(t[3]) == 1:
        (a, k), = t[3]
        if k == 1 and a[0] == "fb" and a[1] == endian:
            return a[2]
    if not t[3] and t[2] == 0:
        return bzero(nb)
    return None


def _isplit(t):
    """(size part as one Lin with signed coefficients incl. the constant, other atoms)."""
    w = t[1]
    half = 1 << (w - 1)
    sg = lambda k: k - (1 << w) if k >= half else k
    L = lin(sg(t[2]))
    rest = []
    for at, k in t[3]:
        if at[0] == "sz":
            L = L + at[1] * sg(k)
        else:
            rest.append((at, k))
    return L, rest


def iequal(a, b, F):
    if a == b:
        return True
    if a[1] != b[1]:
        return False
    if any(at[0] == "sz" for at, _ in a[3] + b[3]):
        # equal as integers implies equal mod 2^w: compare the size parts as one linear form
        La, ra = _isplit(a)
        Lb, rb = _isplit(b)
        if not F.prove_eq(La - Lb):
            return False
        a = ("int", a[1], 0, tuple(ra))
        b = ("int", b[1], 0, tuple(rb))
    if a[2] != b[2] or len(a[3]) != len(b[3]):
        return False
    rest = list(b[3])
    for at, k in a[3]:
        for i, (bt, bk) in enumerate(rest):
            if k == bk and iatom_equal(at, bt, F):
                rest.pop(i)
                break
        else:
            return False
    return True


def iatom_equal(a, b, F):
    if a == b:
        return True
    if a[0] != b[0]:
        return False
    if a[0] == "fb":
        return a[1] == b[1] and bequal(a[2], b[2], F)
    if a[0] == "sz":
        return F.prove_eq(a[1] - b[1])
    return False


# ------------------------------------------------------------------ cipher
def rec_unfold_out(rid, idx, F):
    """out_idx of recurrence rid written out one step: out template with st := state(idx)."""
    r = REC[rid]
    return bsubst(r["out"], {"$rs": rec_state(rid, idx, F)}, {"$ri": lin(idx)}, F)


def mkcipher(kind, b, F):
    b = bnorm(b, F)
    inv = "D" if kind == "E" else "E"
    if len(b) == 1 and b[0][0] == "x" and len(b[0][2]) == 1:
        (a, o), = b[0][2]
        if a[0] == inv and o == ZERO and F.prove_eq(blen(a[1]) - b[0][1]):
            return a[1]
        if a[0] == "rec" and a[2] == "out" and o == ZERO and F.prove_eq(REC[a[1]]["elen"] - b[0][1]):
            try:
                u = rec_unfold_out(a[1], a[3], F)
            except Undecided:
                u = None
            if u is not None and len(u) == 1 and u[0][0] == "x" and len(u[0][2]) == 1:
                (a2, o2), = u[0][2]
                if a2[0] == inv and o2 == ZERO:
                    return a2[1]
    return batom((kind, b), blen(b))


def map_cipher(kind, b, count, elen, F):
    """element-wise cipher over `count` blocks of length elen."""
    b = bnorm(b, F)
    if count == ONE or count == 1:
        return mkcipher(kind, b, F)
    var = fresh()
    v = Lin.sym(var)
    F2 = F.copy()
    F2.add_ge(v)
    F2.add_ge(count - 1 - v)
    t = mkcipher(kind, bslice(b, v * elen, elen, F2), F2)
    return bnorm((("m", var, ZERO, lin(count), lin(elen), t),), F)


# ------------------------------------------------------------------ slicing
def piece_slice(p, delta, ln, F):
    k = p[0]
    if k == "x":
        return (xpiece(ln, tuple((a, o + delta) for a, o in p[2])),)
    if k == "i":
        F1, F0 = split_facts(F, p[1])
        if F1.inconsistent():
            return bslice(p[4], delta, ln, F0)
        if F0.inconsistent():
            return bslice(p[3], delta, ln, F1)
        a = bslice(p[3], delta, ln, F1)
        b = bslice(p[4], delta, ln, F0)
        if a == b:
            return a
        return (("i", p[1], ln, a, b),)
    if k == "m":
        _, var, lo, hi, el, t = p
        q = delta.div_sym(el)
        c = ln.div_sym(el)
        if q is None or c is None:
            delta, ln = F.canon(delta), F.canon(ln)
            q = delta.div_sym(el)
            c = ln.div_sym(el)
        if q is not None and c is not None:
            return _mkmap(var, lo + q, lo + q + c, el, t, F)
        q0, r0 = _divmod_lin(delta, el, F)
        q1, r1 = _divmod_lin(delta + ln, el, F)
        if q0 is None or q1 is None:
            raise Undecided("slice of map not element aligned: delta=%r len=%r elen=%r" % (delta, ln, el))
        if F.prove_eq(q0 - q1):
            inst = binst(t, var, lo + q0, F)
            return bslice(inst, r0, r1 - r0, F)
        if r0.is_const() and r0.c == 0 and F.prove_ge(q1 - q0):
            out = _mkmap(var, lo + q0, lo + q1, el, t, F)
            if not (r1.is_const() and r1.c == 0):
                tail = binst(t, var, lo + q1, F)
                out = out + bslice(tail, ZERO, r1, F)
            return out
        if not F.prove_ge(q1 - q0 - 1):
            raise Undecided("slice of map: cannot order elements %r, %r" % (q0, q1))
        out = ()
        head = binst(t, var, lo + q0, F)
        out = out + bslice(head, r0, el - r0, F)
        out = out + _mkmap(var, lo + q0 + 1, lo + q1, el, t, F)
        if not (r1.is_const() and r1.c == 0):
            tail = binst(t, var, lo + q1, F)
            out = out + bslice(tail, ZERO, r1, F)
        return out
    raise ValueError(p)


def _divmod_lin(l, e, F):
    """try l = q*e + r with 0 <= r < e provable; returns (q, r) or (None, None)."""
    l = F.canon(lin(l))
    e = lin(e)
    q = l.div_sym(e)
    if q is not None:
        return q, ZERO
    # peel monomials divisible by e
    qd = ZERO
    rem = ZERO
    for m, k in l.t:
        one = Lin(0, ((m, k),))
        qq = one.div_sym(e)
        if qq is not None:
            qd = qd + qq
        else:
            rem = rem + one
    cq = None
    if e.is_const() and e.c > 0:
        cq, cr = divmod(l.c, e.c)
        qd = qd + cq
        rem = rem + cr
    else:
        rem = rem + l.c
    if F.prove_ge(rem) and F.prove_ge(e - rem):
        return qd, rem
    return None, None


def _mkmap(var, lo, hi, el, t, F):
    n = hi - lo
    if n.is_const():
        if n.c <= 0:
            return ()
        if n.c == 1:
            return binst(t, var, lo, F)
    elif F.prove_eq(n):
        return ()
    return (("m", var, lin(lo), lin(hi), lin(el), t),)


def binst(t, var, val, F):
    return bsubst(t, None, {var: lin(val)}, F)


def bslice(b, lo, ln, F, depth=0):
    """bytes [lo, lo+ln) of b; where a position cannot be ordered against a piece
    boundary the result is a conditional piece (case split on the comparison)."""
    try:
        return _bslice(b, lo, ln, F)
    except OrderFail as e:
        if depth >= 4:
            raise
        c = ("lt", lin(e.p) - lin(e.x))
        F1, F2 = split_facts(F, c)
        if F1.inconsistent():
            return bslice(b, lo, ln, F2, depth + 1)
        if F2.inconsistent():
            return bslice(b, lo, ln, F1, depth + 1)
        r1 = bslice(b, lo, ln, F1, depth + 1)
        r2 = bslice(b, lo, ln, F2, depth + 1)
        if r1 == r2:
            return r1
        return (("i", c, lin(ln), r1, r2),)


def _bslice(b, lo, ln, F):
    lo = lin(lo)
    ln = lin(ln)
    if ln.is_const() and ln.c == 0:
        return ()
    if len(b) == 1 and b[0][0] == "x":
        # single plain piece: the sub-range is the same atoms at shifted offsets
        # (range checks are separate obligations of the accessing primitive)
        return bnorm((xpiece(ln, tuple((a, o + lo) for a, o in b[0][2])),), F)
    out = ()
    acc = ZERO
    end = lo + ln
    covered = ZERO
    for p in b:
        pl = plen(p)
        pend = acc + pl
        if F.le(pend, lo):
            acc = pend
            continue
        if not F.prove_ge(pend - lo - 1) and not (pl.is_const() and pl.c == 0):
            raise OrderFail(lo, pend)
        if F.le(end, acc):
            break
        if not F.prove_ge(end - acc - 1):
            raise OrderFail(acc, end)
        if F.le(acc, lo):
            s = lo
        elif F.le(lo, acc):
            s = acc
        else:
            raise OrderFail(lo, acc)
        if F.le(end, pend):
            e = end
        elif F.le(pend, end):
            e = pend
        else:
            raise OrderFail(end, pend)
        if not F.prove_ge(e - s):
            raise Undecided("cannot order slice [%r,+%r) against piece [%r,%r)" % (lo, ln, acc, pend))
        out = out + piece_slice(p, s - acc, e - s, F)
        covered = covered + (e - s)
        acc = pend
    if not F.prove_eq(covered - ln):
        raise Undecided("slice [%r,+%r) not covered (got %r) of %s" % (lo, ln, covered, bshow(b)))
    return bnorm(out, F)


def bwrite(b, lo, val, F):
    """b with bytes [lo, lo+len(val)) replaced by val."""
    total = blen(b)
    ln = blen(val)
    pre = bslice(b, ZERO, lo, F)
    post = bslice(b, lo + ln, total - lo - ln, F)
    return bnorm(pre + tuple(val) + post, F)


# ------------------------------------------------------------------ normalisation
def _contig(p, q, F):
    """two x pieces mergeable: same atoms, offsets continue."""
    if len(p[2]) != len(q[2]):
        return False
    if not p[2]:
        return True
    qa = list(q[2])
    for a, o in p[2]:
        for i, (a2, o2) in enumerate(qa):
            if a2 == a and (o + p[1] == o2 or F.prove_eq(o + p[1] - o2)):
                qa.pop(i)
                break
        else:
            return False
    return True


def _collapse_map(p, F):
    """map whose template is one affine x piece -> plain piece."""
    _, var, lo, hi, el, t = p
    if len(t) != 1 or t[0][0] != "x":
        return None
    v = Lin.sym(var)
    xs = []
    for a, o in t[0][2]:
        if var in _asyms(a):
            return None
        base = o - v * el
        if var in base.symbols():
            return None
        xs.append((a, base + lo * el))
    return xpiece((hi - lo) * el, xs)


def _asyms(a):
    k = a[0]
    if k in ("E", "D"):
        return bsyms(a[1])
    if k == "ib":
        return isyms(a[3])
    if k == "rec":
        return a[3].symbols()
    return set()


def isyms(t):
    s = set()
    for a, _ in t[3]:
        if a[0] == "fb":
            s |= bsyms(a[2])
        elif a[0] == "sz":
            s |= a[1].symbols()
        elif a[0] == "ifn":
            for x in a[2]:
                if isinstance(x, Lin):
                    s |= x.symbols()
                elif isinstance(x, tuple) and x and x[0] == "int":
                    s |= isyms(x)
    return s


def bsyms(b):
    s = set()
    for p in b:
        k = p[0]
        if k == "x":
            s |= p[1].symbols()
            for a, o in p[2]:
                s |= o.symbols()
                s |= _asyms(a)
        elif k == "m":
            s |= p[2].symbols() | p[3].symbols() | p[4].symbols()
            s |= (bsyms(p[5]) - {p[1]})
        elif k == "i":
            s |= csyms(p[1]) | p[2].symbols() | bsyms(p[3]) | bsyms(p[4])
    return s


def csyms(c):
    if c[0] in ("ge", "lt", "eq", "ne"):
        return c[1].symbols()
    s = set()
    for x in c[1:]:
        if isinstance(x, tuple):
            s |= csyms(x)
    return s


def bvars(b):
    """names of free byte variables (and ivars) occurring."""
    s = set()
    for p in b:
        k = p[0]
        if k == "x":
            for a, o in p[2]:
                s |= avars(a)
        elif k == "m":
            s |= bvars(p[5])
        elif k == "i":
            s |= bvars(p[3]) | bvars(p[4])
    return s


def avars(a):
    k = a[0]
    if k == "var":
        return {a[1]}
    if k in ("E", "D"):
        return bvars(a[1])
    if k == "ib":
        return ivars(a[3])
    if k == "rec":
        return set(REC[a[1]]["vars"])
    if k == "unk":
        return {"?" + a[1]}
    return set()


def ivars(t):
    s = set()
    for a, _ in t[3]:
        if a[0] == "fb":
            s |= bvars(a[2])
        elif a[0] == "ivar":
            s.add(a[1])
        elif a[0] == "iunk":
            s.add("?" + a[1])
        elif a[0] == "ifn":
            for x in a[2]:
                if isinstance(x, tuple) and x and x[0] == "int":
                    s |= ivars(x)
    return s


def ifn(w, name, *args):
    """uninterpreted integer function (truncating casts, shifts, bit operations ...)."""
    return ("int", w, 0, ((("ifn", name, tuple(args)), 1),))


def bnorm(b, F):
    out = []
    for p in b:
        k = p[0]
        if k == "x":
            if p[1].is_const() and p[1].c == 0:
                continue
            if not p[1].is_const() and F.prove_eq(p[1]):
                continue
            if out and out[-1][0] == "x" and _contig(out[-1], p, F):
                q = out.pop()
                out.append(("x", q[1] + p[1], q[2]))
            else:
                out.append(p)
        elif k == "m":
            _, var, lo, hi, el, t = p
            n = hi - lo
            if (n.is_const() and n.c <= 0) or (not n.is_const() and F.prove_eq(n)):
                continue
            if (n.is_const() and n.c == 1) or (not n.is_const() and n.degree() <= 1 and F.prove_eq(n - 1)):
                # a map over exactly one index is its single element
                for q in bnorm(binst(t, var, lo, F), F):
                    out.append(q)
                continue
            # ite on boundary index inside template -> split
            sp = _split_map_ite(p, F)
            if sp is not None:
                _SPLIT_DEPTH[0] += 1
                try:
                    if _SPLIT_DEPTH[0] > 64:
                        raise Undecided("map with an index condition does not split into finitely many ranges")
                    for q in bnorm(sp, F):
                        out.append(q)
                finally:
                    _SPLIT_DEPTH[0] -= 1
                continue
            c = _collapse_map(p, F)
            if c is not None:
                if out and out[-1][0] == "x" and _contig(out[-1], c, F):
                    q = out.pop()
                    out.append(("x", q[1] + c[1], q[2]))
                else:
                    out.append(c)
                continue
            out.append(p)
        elif k == "i":
            c = p[1]
            if F.prove_cond(c):
                out.extend(bnorm(p[3], F))
            elif F.refute_cond(c):
                out.extend(bnorm(p[4], F))
            elif bequal_syn(p[3], p[4]):
                out.extend(p[3])
            else:
                F1, F0 = split_facts(F, c)
                if F1.inconsistent():
                    out.extend(bnorm(p[4], F0))
                elif F0.inconsistent():
                    out.extend(bnorm(p[3], F1))
                else:
                    a = bnorm(p[3], F1)
                    b = bnorm(p[4], F0)
                    if a == b:
                        out.extend(a)
                    else:
                        out.append(("i", c, p[2], a, b))
    return tuple(out)


def bequal_syn(a, b):
    return a == b


_SPLIT_DEPTH = [0]


def _find_index_cond(t, var):
    for p in t:
        if p[0] == "i":
            if p[1][0] in ("eq", "ne", "lt", "ge"):
                return p[1]
            c = _find_index_cond(p[3], var) or _find_index_cond(p[4], var)
            if c:
                return c
        if p[0] == "x":
            for a, o in p[2]:
                if a[0] in ("E", "D"):
                    c = _find_index_cond(a[1], var)
                    if c:
                        return c
    return None


def _split_map_ite(p, F):
    _, var, lo, hi, el, t = p
    c = _find_index_cond(t, var)
    if c is None:
        return None
    l = c[1]
    v = Lin.sym(var)
    if var not in l.symbols():
        # condition does not depend on the index: hoist it out of the map
        F1, F0 = split_facts(F, c)
        if F1.inconsistent() or F0.inconsistent():
            return None
        Fa = F1.copy()
        Fa.add_ge(v - lo)
        Fa.add_ge(hi - 1 - v)
        Fb = F0.copy()
        Fb.add_ge(v - lo)
        Fb.add_ge(hi - 1 - v)
        ta = bnorm(t, Fa)
        tb = bnorm(t, Fb)
        if ta == t and tb == t:
            return None
        return (("i", c, (hi - lo) * el, bnorm((("m", var, lo, hi, el, ta),), F1), bnorm((("m", var, lo, hi, el, tb),), F0)),)
    co = l.terms().get((var,), 0)
    if co not in (1, -1):
        return None
    val = (v * co - l) * co  # l == 0  <=>  var == val
    if var in val.symbols():
        return None

    def part(a, b, extra):
        F2 = F.copy()
        F2.add_ge(v - a)
        F2.add_ge(b - 1 - v)
        for e in extra:
            F2.add_cond(e)
        return _mkmap(var, a, b, el, bnorm(t, F2), F)

    if c[0] in ("eq", "ne"):
        if not F.prove_ge(hi - lo - 1):
            return None      # possibly empty map: cannot peel an element off
        if F.prove_eq(val - lo):
            a = binst(t, var, lo, F)
            return tuple(a) + tuple(part(lo + 1, hi, []))
        if F.prove_eq(val - (hi - 1)):
            a = binst(t, var, hi - 1, F)
            return tuple(part(lo, hi - 1, [])) + tuple(a)
        return None
    # ('lt', l): l < 0 ; ('ge', l): l >= 0 ; with l = co*var - co*val
    # co=+1: lt <=> var < val (split at val) ; co=-1: lt <=> var > val (split at val+1)
    split = val if co == 1 else val + 1
    if not (F.le(lo, split) and F.le(split, hi)):
        return None
    res = tuple(part(lo, split, [])) + tuple(part(split, hi, []))
    if p in res:
        return None          # no progress (split point on a boundary, condition left undecided)
    return res


# ------------------------------------------------------------------ xor
def _boundaries(b):
    acc = ZERO
    r = []
    for p in b:
        acc = acc + plen(p)
        r.append(acc)
    return r


def bxor(a, b, F):
    a = bnorm(a, F)
    b = bnorm(b, F)
    la, lb = blen(a), blen(b)
    if not F.prove_eq(la - lb):
        raise Undecided("xor of different lengths %r vs %r" % (la, lb))
    out = ()
    acc = ZERO
    # refine a by b's boundaries and b by a's
    cuts = []
    for x in _boundaries(a) + _boundaries(b):
        if not any(F.prove_eq(x - y) for y in cuts):
            cuts.append(x)
    # order cuts
    cuts = _sort_lins(cuts, F)
    prev = ZERO
    for c in cuts:
        ln = c - prev
        if F.prove_eq(ln):
            continue
        pa = bslice(a, prev, ln, F)
        pb = bslice(b, prev, ln, F)
        out = out + _xor_aligned(pa, pb, ln, F)
        prev = c
    return bnorm(out, F)


def _sort_lins(ls, F):
    out = []
    for x in ls:
        i = 0
        while i < len(out):
            if F.le(out[i], x):
                i += 1
                continue
            if F.le(x, out[i]):
                break
            raise OrderFail(x, out[i])
        out.insert(i, x)
    return out


def _xor_aligned(pa, pb, ln, F):
    if len(pa) == 0:
        return pb
    if len(pb) == 0:
        return pa
    if len(pa) != 1 or len(pb) != 1:
        raise Undecided("xor alignment failed")
    p, q = pa[0], pb[0]
    if p[0] == "x" and q[0] == "x":
        return (xpiece(ln, p[2] + q[2]),)
    if p[0] == "x" and not p[2]:
        return (q,)
    if q[0] == "x" and not q[2]:
        return (p,)
    if p[0] == "m" and q[0] == "m":
        if F.prove_eq(p[2] - q[2]) and F.prove_eq(p[3] - q[3]) and F.prove_eq(p[4] - q[4]):
            var = fresh()
            v = Lin.sym(var)
            F2 = F.copy()
            F2.add_ge(v - p[2])
            F2.add_ge(p[3] - 1 - v)
            t = bxor(binst(p[5], p[1], v, F2), binst(q[5], q[1], v, F2), F2)
            return (("m", var, p[2], p[3], p[4], t),)
    if p[0] == "m" and q[0] == "x":
        return _xor_map_plain(p, q, F)
    if q[0] == "m" and p[0] == "x":
        return _xor_map_plain(q, p, F)
    if q[0] == "i" and p[0] != "i":
        p, q = q, p
    if p[0] == "i":
        F1, F0 = split_facts(F, p[1])
        if F1.inconsistent():
            return bxor(p[4], (q,), F0)
        if F0.inconsistent():
            return bxor(p[3], (q,), F1)
        a = bxor(p[3], (q,), F1)
        b = bxor(p[4], (q,), F0)
        if a == b:
            return a
        return (("i", p[1], ln, a, b),)
    raise Undecided("xor of %s and %s" % (p[0], q[0]))


def _xor_map_plain(m, x, F):
    _, var, lo, hi, el, t = m
    v = Lin.sym(var)
    F2 = F.copy()
    F2.add_ge(v - lo)
    F2.add_ge(hi - 1 - v)
    xt = (xpiece(el, tuple((a, o + (v - lo) * el) for a, o in x[2])),)
    return (("m", var, lo, hi, el, bxor(t, xt, F2)),)


# ------------------------------------------------------------------ equality
def unfold_recs(b, F):
    """rewrite every recurrence atom by one step of its definition."""
    return bsubst(b, None, {"__unfold__": True}, F)


def has_rec(b):
    return "('rec'," in repr(b)


def bequal(a, b, F):
    if _bequal(a, b, F):
        return True
    if has_rec(a) or has_rec(b):
        try:
            a1, b1 = unfold_recs(a, F), unfold_recs(b, F)
            if _bequal(a1, b1, F):
                return True
            a2, b2 = unfold_recs(a1, F), unfold_recs(b1, F)
            return _bequal(a2, b2, F)
        except Undecided:
            return False
    return False


def _bequal(a, b, F):
    try:
        rw = {k: v for k, v in getattr(F, "rewrites", {}).items() if k != "__generated__"}
        if rw:
            # definitional equalities (len := k*bs + d ...): compare canonical forms
            if bsyms(a) & set(rw):
                a = bsubst(a, {}, rw, F)
            if bsyms(b) & set(rw):
                b = bsubst(b, {}, rw, F)
        a = bnorm(a, F)
        b = bnorm(b, F)
        if a == b:
            return True
        if not F.prove_eq(blen(a) - blen(b)):
            return False
        cuts = []
        for x in _boundaries(a) + _boundaries(b):
            if not any(F.prove_eq(x - y) for y in cuts):
                cuts.append(x)
        cuts = _sort_lins(cuts, F)
        prev = ZERO
        for c in cuts:
            ln = c - prev
            if F.prove_eq(ln):
                continue
            pa = bslice(a, prev, ln, F)
            pb = bslice(b, prev, ln, F)
            if not _pieces_equal(pa, pb, ln, F):
                return False
            prev = c
        return True
    except Undecided:
        return False


def _pieces_equal(pa, pb, ln, F):
    if pa == pb:
        return True
    if len(pa) != 1 or len(pb) != 1:
        if len(pa) == len(pb):
            return all(_pieces_equal((x,), (y,), plen(x), F) for x, y in zip(pa, pb))
        return False
    p, q = pa[0], pb[0]
    if p[0] == "x" and q[0] == "x":
        return _xs_equal(p[2], q[2], F)
    if p[0] == "m" and q[0] == "x":
        p, q = q, p
    if p[0] == "x" and q[0] == "m":
        _, var, lo, hi, el, t = q
        v = Lin.sym(var)
        F2 = F.copy()
        F2.add_ge(v - lo)
        F2.add_ge(hi - 1 - v)
        xt = (xpiece(el, tuple((a, o + (v - lo) * el) for a, o in p[2])),)
        return bequal(xt, t, F2)
    if p[0] == "m" and q[0] == "m":
        if not (F.prove_eq((p[3] - p[2]) - (q[3] - q[2])) and F.prove_eq(p[4] - q[4])):
            return False
        var = fresh()
        v = Lin.sym(var)
        F2 = F.copy()
        F2.add_ge(v)
        F2.add_ge(p[3] - p[2] - 1 - v)
        return bequal(binst(p[5], p[1], v + p[2], F2), binst(q[5], q[1], v + q[2], F2), F2)
    if p[0] == "i" and q[0] == "i":
        if p[1] == q[1]:
            F1, F0 = split_facts(F, p[1])
            return (F1.inconsistent() or bequal(p[3], q[3], F1)) and (F0.inconsistent() or bequal(p[4], q[4], F0))
    if p[0] == "i":
        F1, F0 = split_facts(F, p[1])
        return (F1.inconsistent() or bequal(p[3], (q,), F1)) and (F0.inconsistent() or bequal(p[4], (q,), F0))
    if q[0] == "i":
        return _pieces_equal(pb, pa, ln, F)
    return False


def _xs_equal(xa, xb, F):
    if len(xa) != len(xb):
        return False
    rest = list(xb)
    for a, o in xa:
        for i, (a2, o2) in enumerate(rest):
            if (o == o2 or F.prove_eq(o - o2)) and aequal(a, a2, F):
                rest.pop(i)
                break
        else:
            return False
    return True


def aequal(a, b, F):
    if a == b:
        return True
    if a[0] != b[0]:
        return False
    k = a[0]
    if k in ("E", "D"):
        return bequal(a[1], b[1], F)
    if k == "ib":
        return a[1] == b[1] and a[2] == b[2] and iequal(a[3], b[3], F)
    if k == "rec":
        return a[1] == b[1] and a[2] == b[2] and F.prove_eq(a[3] - b[3])
    return False


# ------------------------------------------------------------------ recurrences
REC = {}
_REC_KEYS = {}


def mkrec(init, step_st, step_out, elen, st_var, idx_var, F, vars_=()):
    """define (or look up) a recurrence:  st_0 = init ; st_{j+1} = step_st(st_j, j) ;
    out_j = step_out(st_j, j).  step_* are BStr mentioning byte var `st_var` and index
    symbol `idx_var`.  Returns recid (canonical: alpha-renamed)."""
    cv = "$rs"
    ci = "$ri"
    declare_var(cv, blen(init))
    F2 = F.copy()
    st2 = bsubst(step_st, {st_var: bvar(cv)}, {idx_var: Lin.sym(ci)}, F2)
    out2 = bsubst(step_out, {st_var: bvar(cv)}, {idx_var: Lin.sym(ci)}, F2)
    key = (init, st2, out2)
    for rid, k in _REC_KEYS.items():
        if k == key or (bequal(k[0], init, F) and bequal(k[1], st2, F2) and bequal(k[2], out2, F2)):
            return rid
    rid = "R%d" % len(REC)
    _REC_KEYS[rid] = key
    vs = (bvars(init) | bvars(st2) | bvars(out2)) - {cv}
    REC[rid] = {"init": init, "st": st2, "out": out2, "elen": lin(elen), "stlen": blen(init), "vars": sorted(vs), "st_is_out": bequal(st2, out2, F2)}
    return rid


def rec_state(rid, idx, F):
    """state after idx steps."""
    idx = lin(idx)
    r = REC[rid]
    if F.prove_eq(idx):
        return r["init"]
    if r["st_is_out"] and F.prove_ge(idx - 1):
        return batom(("rec", rid, "out", idx - 1), r["elen"])
    return batom(("rec", rid, "st", idx), r["stlen"])


def rec_out(rid, idx, F):
    r = REC[rid]
    return batom(("rec", rid, "out", lin(idx)), r["elen"])


# ------------------------------------------------------------------ display
def ashow(a):
    k = a[0]
    if k == "var":
        return a[1]
    if k in ("E", "D"):
        return "%s(%s)" % (k, bshow(a[1]))
    if k == "ib":
        return "%s%d(%s)" % (a[1], a[2] * 8, ishow(a[3]))
    if k == "rec":
        return "%s.%s[%r]" % (a[1], a[2], a[3])
    return "?%s" % (a[1],)


def ishow(t):
    _, w, c, ts = t
    parts = []
    for a, k in ts:
        if a[0] == "ivar":
            s = a[1]
        elif a[0] == "fb":
            s = "from_%s(%s)" % (a[1], bshow(a[2]))
        elif a[0] == "sz":
            s = "(%r)" % (a[1],)
        elif a[0] == "ifn":
            s = "%s(%s)" % (a[1], ", ".join(ishow(x) if (isinstance(x, tuple) and x and x[0] == "int") else repr(x) for x in a[2]))
        else:
            s = "?%s" % (a[1],)
        if k == 1:
            parts.append(s)
        elif k == (1 << w) - 1:
            parts.append("-" + s)
        else:
            parts.append("%d*%s" % (k, s))
    if c or not parts:
        parts.append(str(c) if c < (1 << (w - 1)) else "-%d" % ((1 << w) - c))
    return "[" + " + ".join(parts) + "]u%d" % w


def cshow(c):
    k = c[0]
    if k in ("ge", "lt", "eq", "ne"):
        return "%r%s0" % (c[1], {"ge": ">=", "lt": "<", "eq": "==", "ne": "!="}[k])
    return repr(c)


def bshow(b):
    ps = []
    for p in b:
        k = p[0]
        if k == "x":
            if not p[2]:
                ps.append("0{%r}" % (p[1],))
                continue
            xs = []
            for a, o in p[2]:
                al = None
                try:
                    al = atom_len(a)
                except Exception:
                    pass
                if o == ZERO and al is not None and al == p[1]:
                    xs.append(ashow(a))
                else:
                    xs.append("%s[%r..+%r]" % (ashow(a), o, p[1]))
            ps.append(" ^ ".join(xs))
        elif k == "m":
            ps.append("map %s in [%r,%r) x%r {%s}" % (p[1], p[2], p[3], p[4], bshow(p[5])))
        elif k == "i":
            ps.append("if %s {%s} else {%s}" % (cshow(p[1]), bshow(p[3]), bshow(p[4])))
    if not ps:
        return "<empty>"
    return " ++ ".join(ps) if len(ps) > 1 else ps[0]
