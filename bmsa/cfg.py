"""CFG utilities on the JSON MIR: successors, dominators, simple local def-use."""


def succs(body, include_unwind=False):
    out = {}
    for i, bb in enumerate(body["blocks"]):
        t = bb["term"]
        k = t["k"]
        s = []
        if k == "goto":
            s = [t["target"]]
        elif k == "switch":
            s = [b for _, b in t["arms"]] + [t["otherwise"]]
        elif k in ("call", "assert", "drop"):
            if t.get("target") is not None:
                s = [t["target"]]
            if include_unwind and t.get("unwind") is not None:
                s.append(t["unwind"])
        out[i] = s
    return out


def reachable(body):
    sc = succs(body)
    seen = {0}
    st = [0]
    while st:
        n = st.pop()
        for m in sc.get(n, []):
            if m not in seen:
                seen.add(m)
                st.append(m)
    return seen


def dominators(body):
    """dom[b] = set of blocks dominating b (normal edges only, reachable blocks)."""
    sc = succs(body)
    reach = reachable(body)
    preds = {b: [] for b in reach}
    for b in reach:
        for m in sc.get(b, []):
            if m in reach:
                preds[m].append(b)
    dom = {b: set(reach) for b in reach}
    dom[0] = {0}
    changed = True
    while changed:
        changed = False
        for b in sorted(reach):
            if b == 0:
                continue
            ps = [dom[p] for p in preds[b]]
            new = set.intersection(*ps) if ps else set()
            new = new | {b}
            if new != dom[b]:
                dom[b] = new
                changed = True
    return dom


def return_blocks(body):
    reach = reachable(body)
    return [i for i in reach if body["blocks"][i]["term"]["k"] == "return"]


def calls(body, include_cleanup=False):
    """yield (block index, terminator, fn dict) for direct calls."""
    reach = reachable(body)
    for i, bb in enumerate(body["blocks"]):
        if bb["cleanup"] and not include_cleanup:
            continue
        if i not in reach and not include_cleanup:
            continue
        t = bb["term"]
        if t["k"] == "call" and t["func"]["k"] == "const" and "fn" in t["func"]:
            yield i, t, t["func"]["fn"]


def place_locals(p):
    s = {p["local"]}
    for e in p["proj"]:
        if e["k"] == "index":
            s.add(e["local"])
    return s


def operand_locals(op):
    if op["k"] in ("copy", "move"):
        return place_locals(op["place"])
    return set()


def rvalue_locals(rv):
    k = rv["k"]
    s = set()
    if k in ("use", "cast", "repeat"):
        s |= operand_locals(rv["op"])
    elif k in ("ref", "rawptr", "discriminant", "copyforderef"):
        s |= place_locals(rv["place"])
    elif k == "binop":
        s |= operand_locals(rv["a"]) | operand_locals(rv["b"])
    elif k == "unop":
        s |= operand_locals(rv["a"])
    elif k == "aggregate":
        for o in rv["ops"]:
            s |= operand_locals(o)
    return s


def taint_from(body, seeds):
    """locals whose value may derive from the seed locals (flow-insensitive closure over
    assignments and call results)."""
    tainted = set(seeds)
    changed = True
    while changed:
        changed = False
        for bb in body["blocks"]:
            if bb["cleanup"]:
                continue
            for st in bb["stmts"]:
                if st["k"] == "assign":
                    if rvalue_locals(st["rv"]) & tainted and st["place"]["local"] not in tainted:
                        tainted.add(st["place"]["local"])
                        changed = True
            t = bb["term"]
            if t["k"] == "call":
                used = set()
                for a in t["args"]:
                    used |= operand_locals(a)
                if used & tainted and t["dest"]["local"] not in tainted:
                    tainted.add(t["dest"]["local"])
                    changed = True
    return tainted


def ref_source(body, local, depth=0, types=None, callres=None):
    """follow `_x = &mut (*_1).f` / `_x = &mut (*_y)` / `_x = move _y` chains backwards:
    returns the projection path (list of field names) from an argument local, or None.
    With `types` given, `_x = copy/move <place>` is followed only when `_x` is itself a reference
    or pointer (moving a reference around); a by-value copy of the pointee is a different object."""
    if depth > 12:
        return None
    defs = []
    for bb in body["blocks"]:
        for st in bb["stmts"]:
            if st["k"] == "assign" and st["place"]["local"] == local and not st["place"]["proj"]:
                defs.append(st["rv"])
    if not defs and callres is not None:
        # `_x = accessor(move _y)`: a reference handed out by a workspace accessor function
        # (`fn chain_mut(&mut self) -> &mut Block { &mut self.iv }`), as far as `callres` can tell
        cdefs = [bb["term"] for bb in body["blocks"] if bb["term"]["k"] == "call" and bb["term"].get("dest") is not None
                 and bb["term"]["dest"]["local"] == local and not bb["term"]["dest"]["proj"]]
        if len(cdefs) != 1 or cdefs[0]["func"]["k"] != "const" or "fn" not in cdefs[0]["func"]:
            return None
        t = cdefs[0]
        inner = callres(body, t, t["func"]["fn"])
        if inner is None or inner[0] - 1 >= len(t["args"]):
            return None
        a = t["args"][inner[0] - 1]
        if a["k"] not in ("copy", "move") or a["place"]["proj"]:
            return None
        al = a["place"]["local"]
        if 1 <= al <= body["arg_count"]:
            return (al, list(inner[1]))
        r = ref_source(body, al, depth + 1, types, callres)
        if r is None:
            return None
        return (r[0], r[1] + list(inner[1]))
    if len(defs) != 1:
        return None
    rv = defs[0]
    if rv["k"] in ("ref", "rawptr", "copyforderef"):
        p = rv["place"]
    elif rv["k"] == "use" and rv["op"]["k"] in ("copy", "move"):
        p = rv["op"]["place"]
        if types is not None and types[body["locals"][local]["ty"]]["k"] not in ("ref", "rawptr", "ptr"):
            return None
    else:
        return None
    fields = [e.get("name", e.get("i")) for e in p["proj"] if e["k"] == "field"]
    if p["local"] <= body["arg_count"] and p["local"] >= 1:
        return (p["local"], fields)
    r = ref_source(body, p["local"], depth + 1, types, callres)
    if r is None:
        return None
    return (r[0], r[1] + fields)
