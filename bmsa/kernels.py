"""Set-up of abstract entry states for the kernels of the workspace and extraction of
their summaries (output term, next-state terms, events, obligations) per path."""
from .lin import Lin, Facts, lin, ZERO, ONE
from . import terms as T
from .terms import Undecided
from .interp import Interp, Ctx, State, Target, vbytes, vint, vsize, vref, vstruct

BS = Lin.sym("bs")
NPAR = Lin.sym("n")


def base_ctx():
    c = Ctx()
    c.param_len = {"BS": BS}
    c.alias_len = {"BlockSize": BS, "ParBlocksSize": NPAR, "IvSize": BS}
    return c


def base_facts():
    F = Facts()
    F.add_ge(BS - 1)
    F.add_ge(255 - BS)
    F.add_ge(NPAR - 1)
    return F


class Summary:
    def __init__(self):
        self.paths = []     # dicts: out, state{}, ret, events, oblig, conds, F
        self.error = None
        self.fn = None


def adt_of(crate, path):
    for a in crate.adts:
        if a["path"] == path:
            return a
    return None


def type_args(t):
    return [a["ty"] for a in t.get("args", []) if "ty" in a]


def abstract_value(ip, cr, st, tix, name, depth=0, penv=None):
    """symbolic value of type tix; references get fresh cells.  penv: generic parameter name -> type
    index, for the fields of a generic struct instantiated with concrete arguments."""
    t = cr.types[tix]
    k = t["k"]
    if k == "param" and penv and t["name"] in penv and penv[t["name"]] != tix:
        return abstract_value(ip, cr, st, penv[t["name"]], name, depth + 1, None)
    if k == "ref":
        cell = ("A", name)
        inner = cr.types[t["inner"]]
        st.heap[cell] = abstract_value(ip, cr, st, t["inner"], name, depth + 1, penv)
        return vref(Target(cell))
    if k == "uint":
        if t["name"] == "usize":
            return vsize(Lin.sym(name))
        if t["name"] == "u8":
            T.declare_var(name, ONE)
            return vbytes(T.bvar(name))
        return vint(T.ivar(int(t["name"][1:]), name))
    if k == "slice":
        esz = ip.sizeof(cr, t["inner"])
        cnt = ip.ctx.extra.get(("slice_len", name))
        if cnt is None:
            cnt = Lin.sym(name + ".len")
        st.F.add_ge(cnt)
        T.declare_var(name, cnt * esz)
        return vbytes(T.bvar(name))
    if ip.is_bytes_ty(cr, tix):
        ln = ip.sizeof(cr, tix)
        T.declare_var(name, ln)
        return vbytes(T.bvar(name))
    if k == "adt" and (t["adt"].endswith("::InOutBuf") or t["adt"].endswith("::InOut")):
        et = type_args(t)[0]
        esz = ip.sizeof(cr, et)
        if t["adt"].endswith("::InOutBuf"):
            # every length has a unique decomposition L = k*bs + d, 0 <= d < bs
            bsz = ip.ctx.alias_len["BlockSize"]
            kk, dd = Lin.sym("k"), Lin.sym("d")
            cnt = kk * bsz + dd
            st.F.add_ge(kk)
            st.F.add_ge(dd)
            st.F.add_ge(bsz - 1 - dd)
            total = cnt * esz
            st.decomp[(cnt, bsz)] = (kk, dd)
        else:
            total = esz
        T.declare_var("in", total)
        T.declare_var("out_old", total)
        st.heap[("A", "in")] = vbytes(T.bvar("in"))
        tin = Target(("A", "in"), (("br", ZERO, total),))
        if ip.ctx.extra.get("alias"):
            tout = tin
        else:
            st.heap[("A", "out")] = vbytes(T.bvar("out_old"))
            tout = Target(("A", "out"), (("br", ZERO, total),))
        if t["adt"].endswith("::InOutBuf"):
            return ("iobuf", tin, tout, esz)
        return ("inout", tin, tout)
    if k == "adt":
        a = adt_of(cr, t["adt"]) if t.get("local") else None
        if a and a["kind"] == "struct" and t.get("local"):
            # instantiate generics by name
            gen = a["generics"]
            targs = type_args(t)
            saved = dict(ip.ctx.param_len)
            tys = [x for x in t["args"] if "ty" in x]
            gi = 0
            penv2 = {}
            for gname in gen:
                if gname.startswith("'"):
                    continue
                if gi < len(tys):
                    ta = cr.types[tys[gi]["ty"]]
                    if not (ta["k"] == "param" and ta["name"] == gname):
                        penv2[gname] = tys[gi]["ty"]
                    try:
                        ip.ctx.param_len[gname] = ip.tn_lin(cr, tys[gi]["ty"])
                    except Undecided:
                        pass
                gi += 1
            fields = {}
            c2 = cr
            for f in a["variants"][0]["fields"]:
                # fields of tuple structs are addressed by position (see Interp.place_target)
                fkey = int(f["name"]) if f["name"].isdigit() else f["name"]
                fields[fkey] = abstract_value(ip, c2, st, f["ty"], name + "." + f["name"], depth + 1, penv2)
            ip.ctx.param_len = saved
            return vstruct(t["adt"], fields)
        return ("opaque", t["s"])
    if k == "alias":
        nm = t["alias_def"].split("::")[-1]
        bound = ip.ctx.extra.get(("assoc_ty", nm))
        if bound is not None:
            return abstract_value(ip, cr, st, bound, name, depth + 1)
    if k in ("param", "alias"):
        return ("opaque", t["s"])
    if k == "tuple" and not t["elems"]:
        return ("unit",)
    return ("opaque", t["s"])


def summarise_paths(ip, results, cells):
    out = []
    for st, ret in results:
        d = {"ret": ret, "cells": {}, "events": st.events, "oblig": st.oblig, "conds": st.conds, "F": st.F, "state": st}
        for nm, cell in cells.items():
            v = st.heap.get(cell)
            if v is not None and v[0] == "bytes":
                v = vbytes(T.bnorm(v[1], st.F))
            d["cells"][nm] = v
        out.append(d)
    return out


def run_method(facts, cr, body, arg_builder, ctx=None, F=None, trace=False):
    """generic runner: arg_builder(ip, st) -> (args, cells-of-interest)."""
    ip = Interp(facts, ctx or base_ctx())
    ip.trace = trace
    st = State()
    st.F = (F or base_facts()).copy()
    args, cells = arg_builder(ip, st)
    res = ip.run(cr, body, args, st)
    paths = summarise_paths(ip, res, cells)
    from . import interp as _IP
    for p_ in paths:
        for o in p_.get("oblig", []):
            if not o["ok"]:
                _IP.UNPROVED.setdefault((o.get("crate", cr.name), o["fn"]), set()).add("%s %s" % (o["kind"], o["detail"]))
    return ip, paths


def backend_args(alias, in_name="in", out_name="out_old"):
    """arg builder for fn(&mut self, block: InOut<..>) / fn(&mut self, block: &mut Block).
    alias: True = in place (input and output are the same buffer)."""
    def build(ip, st):
        fr_body = build.body
        cr = build.cr
        locs = fr_body["locals"]
        args = []
        cells = {}
        self_v = abstract_value(ip, cr, st, locs[1]["ty"], "self")
        args.append(self_v)
        # state cells: everything reachable from self that is a cell
        for c in list(st.heap):
            cells[c[1]] = c
        if fr_body["arg_count"] >= 2:
            t2 = cr.types[locs[2]["ty"]]
            if t2["k"] == "adt" and t2["adt"].endswith("InOut"):
                et = type_args(t2)[0]
                ln = ip.sizeof(cr, et)
                T.declare_var(in_name, ln)
                T.declare_var(out_name, ln)
                st.heap[("A", "in")] = vbytes(T.bvar(in_name))
                if alias:
                    io = ("inout", Target(("A", "in")), Target(("A", "in")))
                    cells["out"] = ("A", "in")
                else:
                    st.heap[("A", "out")] = vbytes(T.bvar(out_name))
                    io = ("inout", Target(("A", "in")), Target(("A", "out")))
                    cells["out"] = ("A", "out")
                    cells["in"] = ("A", "in")
                args.append(io)
            else:
                v = abstract_value(ip, cr, st, locs[2]["ty"], out_name)
                args.append(v)
                cells["out"] = ("A", out_name)
        return args, cells
    return build


def run_backend_method(facts, cr, body, alias=False, ctx=None, F=None, trace=False, in_name="in", out_name="out_old"):
    b = backend_args(alias, in_name, out_name)
    b.body = body
    b.cr = cr
    return run_method(facts, cr, body, b, ctx, F, trace)


def show_value(v):
    if v is None:
        return "<unset>"
    if v[0] == "bytes":
        return T.bshow(v[1])
    if v[0] == "int":
        return T.ishow(v[1])
    if v[0] == "size":
        return repr(v[1])
    if v[0] == "struct":
        return "%s{%s}" % (v[1].split("::")[-1], ", ".join("%s: %s" % (k, show_value(x)) for k, x in v[2].items()))
    if v[0] == "ref":
        return "&%r" % (v[1],)
    if v[0] == "tuple":
        return "(%s)" % ", ".join(show_value(x) for x in v[1])
    if v[0] == "enum":
        return "%s(%s)" % (v[3], ", ".join(show_value(x) for x in v[4]))
    return repr(v)


# ---------------------------------------------------------------- CTR
CHUNKS = Lin.sym("chunks")


def ctr_flavors(facts):
    cr = facts.crate("ctr")
    out = []
    for im in cr.impls:
        if im.get("trait_name") == "CtrFlavor":
            out.append(im)
    return cr, out


def ctr_ctx(cr, im):
    """context for one CtrFlavor impl: block size = CS * chunks."""
    c = base_ctx()
    at = {it["name"]: it for it in im["items"]}
    if "Backend" not in at or "CtrNonce" not in at:
        raise Undecided("flavour %s does not bind the associated types Backend and CtrNonce" % im.get("self"))
    nonce_ty = at["CtrNonce"]["ty"]
    backend_ty = cr.types[at["Backend"]["ty"]]
    w = int(backend_ty["name"][1:])
    cs = w // 8
    bs = CHUNKS * cs
    c.param_len = {"BS": bs, "B": bs}
    c.alias_len = {"BlockSize": bs, "ParBlocksSize": NPAR, "IvSize": bs}
    c.trait_impl = {im["trait"]: (cr, im)}
    c.extra[("assoc_ty", "CtrNonce")] = nonce_ty
    c.extra[("assoc_ty", "Backend")] = at["Backend"]["ty"]
    c.extra[("assoc_ty", "Counter")] = at["Backend"]["ty"]
    c.extra["w"] = w
    c.extra["cs"] = cs
    F = Facts()
    F.add_ge(CHUNKS - 1)
    F.add_ge(NPAR - 1)
    return c, F
