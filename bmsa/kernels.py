"""Set-up of abstract entry states for the kernels of the workspace and extraction of
their summaries (output term, next-state terms, events, obligations) per path."""
from .lin import Lin, Facts, lin, ZERO, ONE
from . import terms as T
from .terms import Undecided
from .interp import Interp, Ctx, State, Target, vbytes, vint, vsize, vref, vstruct

BS = Lin.sym("bs")
NPAR = Lin.sym("n")


def base_ctx():
    c = Ctx()
    c.param_len = {"BS": BS}
    c.alias_len = {"BlockSize": BS, "ParBlocksSize": NPAR, "IvSize": BS}
    return c


def base_facts():
    F = Facts()
    F.add_ge(BS - 1)
    F.add_ge(255 - BS)
    F.add_ge(NPAR - 1)
    return F


class Summary:
    def __init__(self):
        self.paths = []     # dicts: out, state{}, ret, events, oblig, conds, F
        self.error = None
        self.fn = None


def adt_of(crate, path):
    for a in crate.adts:
        if a["path"] == path:
            return a
    return None


def type_args(t):
    return [a["ty"] for a in t.get("args", []) if "ty" in a]


def abstract_value(ip, cr, st, tix, name, depth=0):
    """symbolic value of type tix; references get fresh cells."""
    t = cr.types[tix]
    k = t["k"]
    if k == "ref":
        cell = ("A", name)
        inner = cr.types[t["inner"]]
        if inner["k"] in ("param", "alias") and not ip.is_bytes_ty(cr, t["inner"]):
            try:
                st.heap[cell] = abstract_value(ip, cr, st, t["inner"], name, depth + 1)
            except Undecided:
                st.heap[cell] = ("opaque", inner["s"])
        else:
            st.heap[cell] = abstract_value(ip, cr, st, t["inner"], name, depth + 1)
        return vref(Target(cell))
    if k == "uint":
        if t["name"] == "usize":
            return vsize(Lin.sym(name))
        if t["name"] == "u8":
            T.declare_var(name, ONE)
            return vbytes(T.bvar(name))
        return vint(T.ivar(int(t["name"][1:]), name))
    if ip.is_bytes_ty(cr, tix):
        ln = ip.sizeof(cr, tix)
        T.declare_var(name, ln)
        return vbytes(T.bvar(name))
    if k == "adt":
        a = adt_of(cr, t["adt"]) if t.get("local") else None
        if a and a["kind"] == "struct" and t.get("local"):
            # instantiate generics by name
            gen = a["generics"]
            targs = type_args(t)
            saved = dict(ip.ctx.param_len)
            tys = [x for x in t["args"] if "ty" in x]
            gi = 0
            for gname in gen:
                if gname.startswith("'"):
                    continue
                if gi < len(tys):
                    try:
                        ip.ctx.param_len[gname] = ip.tn_lin(cr, tys[gi]["ty"])
                    except Undecided:
                        pass
                gi += 1
            fields = {}
            c2 = cr
            for f in a["variants"][0]["fields"]:
                fields[f["name"]] = abstract_value(ip, c2, st, f["ty"], name + "." + f["name"], depth + 1)
            ip.ctx.param_len = saved
            return vstruct(t["adt"], fields)
        return ("opaque", t["s"])
    if k in ("param", "alias"):
        return ("opaque", t["s"])
    if k == "tuple" and not t["elems"]:
        return ("unit",)
    return ("opaque", t["s"])


def summarise_paths(ip, results, cells):
    out = []
    for st, ret in results:
        d = {"ret": ret, "cells": {}, "events": st.events, "oblig": st.oblig, "conds": st.conds, "F": st.F, "state": st}
        for nm, cell in cells.items():
            d["cells"][nm] = st.heap.get(cell)
        out.append(d)
    return out


def run_method(facts, cr, body, arg_builder, ctx=None, F=None, trace=False):
    """generic runner: arg_builder(ip, st) -> (args, cells-of-interest)."""
    ip = Interp(facts, ctx or base_ctx())
    ip.trace = trace
    st = State()
    st.F = (F or base_facts()).copy()
    args, cells = arg_builder(ip, st)
    res = ip.run(cr, body, args, st)
    return ip, summarise_paths(ip, res, cells)


def backend_args(alias):
    """arg builder for fn(&mut self, block: InOut<..>) / fn(&mut self, block: &mut Block).
    alias: True = in place (input and output are the same buffer)."""
    def build(ip, st):
        fr_body = build.body
        cr = build.cr
        locs = fr_body["locals"]
        args = []
        cells = {}
        self_v = abstract_value(ip, cr, st, locs[1]["ty"], "self")
        args.append(self_v)
        # state cells: everything reachable from self that is a cell
        for c in list(st.heap):
            cells[c[1]] = c
        if fr_body["arg_count"] >= 2:
            t2 = cr.types[locs[2]["ty"]]
            if t2["k"] == "adt" and t2["adt"].endswith("InOut"):
                et = type_args(t2)[0]
                ln = ip.sizeof(cr, et)
                T.declare_var("in", ln)
                T.declare_var("out_old", ln)
                st.heap[("A", "in")] = vbytes(T.bvar("in"))
                if alias:
                    io = ("inout", Target(("A", "in")), Target(("A", "in")))
                    cells["out"] = ("A", "in")
                else:
                    st.heap[("A", "out")] = vbytes(T.bvar("out_old"))
                    io = ("inout", Target(("A", "in")), Target(("A", "out")))
                    cells["out"] = ("A", "out")
                    cells["in"] = ("A", "in")
                args.append(io)
            else:
                v = abstract_value(ip, cr, st, locs[2]["ty"], "out_old")
                args.append(v)
                cells["out"] = ("A", "out_old")
        return args, cells
    return build


def run_backend_method(facts, cr, body, alias=False, ctx=None, F=None, trace=False):
    b = backend_args(alias)
    b.body = body
    b.cr = cr
    return run_method(facts, cr, body, b, ctx, F, trace)


def show_value(v):
    if v is None:
        return "<unset>"
    if v[0] == "bytes":
        return T.bshow(v[1])
    if v[0] == "int":
        return T.ishow(v[1])
    if v[0] == "size":
        return repr(v[1])
    if v[0] == "struct":
        return "%s{%s}" % (v[1].split("::")[-1], ", ".join("%s: %s" % (k, show_value(x)) for k, x in v[2].items()))
    if v[0] == "ref":
        return "&%r" % (v[1],)
    if v[0] == "tuple":
        return "(%s)" % ", ".join(show_value(x) for x in v[1])
    if v[0] == "enum":
        return "%s(%s)" % (v[3], ", ".join(show_value(x) for x in v[4]))
    return repr(v)
