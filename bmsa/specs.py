"""Mathematical definitions of the modes (oracle), written from the standards in the
term language of terms.py, independent of the code under analysis.

Block modes are given over the PUBLIC chaining value W, which has the shape of
the IV (one block; two blocks Y||X for IGE):
    step(dir, inp, W, F) -> (out, W')
Stream modes give the keystream block and next chaining value.
CTS gives the whole output buffer as a function of (k, d) and the input buffer.
"""
from .lin import Lin, lin, ZERO, ONE
from . import terms as T

BS = Lin.sym("bs")


# ---------------------------------------------------------------- block modes
def cbc(dir_, inp, W, F):
    if dir_ == "enc":
        out = T.mkcipher("E", T.bxor(inp, W, F), F)
        return out, out
    out = T.bxor(T.mkcipher("D", inp, F), W, F)
    return out, inp


def pcbc(dir_, inp, W, F):
    if dir_ == "enc":
        out = T.mkcipher("E", T.bxor(inp, W, F), F)
    else:
        out = T.bxor(T.mkcipher("D", inp, F), W, F)
    return out, T.bxor(inp, out, F)


def ige(dir_, inp, W, F):
    bs = T.blen(inp)
    Y = T.bslice(W, ZERO, bs, F)      # previous ciphertext block
    X = T.bslice(W, bs, bs, F)        # previous plaintext block
    if dir_ == "enc":
        out = T.bxor(T.mkcipher("E", T.bxor(inp, Y, F), F), X, F)
        return out, T.bnorm(out + inp, F)
    out = T.bxor(T.mkcipher("D", T.bxor(inp, X, F), F), Y, F)
    return out, T.bnorm(inp + out, F)


def cfb(dir_, inp, W, F):
    out = T.bxor(inp, T.mkcipher("E", W, F), F)
    return out, (out if dir_ == "enc" else inp)


def cfb8(dir_, inp, W, F):
    """inp: one byte; W: shift register of bs bytes."""
    n = T.blen(W)
    ks = T.bslice(T.mkcipher("E", W, F), ZERO, ONE, F)
    out = T.bxor(inp, ks, F)
    fb = out if dir_ == "enc" else inp
    return out, T.bnorm(T.bslice(W, ONE, n - 1, F) + fb, F)


def ofb(dir_, inp, W, F):
    o = T.mkcipher("E", W, F)
    if dir_ == "ks":
        return o, o
    return T.bxor(inp, o, F), o


BLOCK_MODES = {"cbc": cbc, "pcbc": pcbc, "ige": ige, "cfb_mode": cfb, "cfb8": cfb8, "ofb": ofb}

# what the decryption direction may call on the cipher (C03: feedback modes use E only)
ENC_ONLY = {"cfb_mode", "cfb8", "ofb", "ctr", "belt_ctr"}

# error propagation table of C15: mode -> (dependence of out_i on in_i, on previous state,
#   does next chaining value depend on the current chaining value?)
#   'lin'  = reached only through xor/slicing (bit flip maps to the same bit)
#   'ciph' = passes through E or D (garbled)
#   'none'
PROPAGATION = {
    # in terms of the PUBLIC chaining value W (decrypt direction)
    "cbc": {"out_in": "ciph", "out_state": "lin", "state_in": "lin", "state_state": "none"},
    "cfb_mode": {"out_in": "lin", "out_state": "ciph", "state_in": "lin", "state_state": "none"},
    "cfb8": {"out_in": "lin", "out_state": "ciph", "state_in": "lin", "state_state": "lin"},
    "pcbc": {"out_in": "ciph", "out_state": "lin", "state_in": "both", "state_state": "lin"},
    "ige": {"out_in": "ciph", "out_state": "both", "state_in": "both", "state_state": "both"},
    "ofb": {"out_in": "lin", "out_state": "ciph", "state_in": "none", "state_state": "ciph"},
}


# ---------------------------------------------------------------- CTR layout
def ctr_layout(W, w_bits, endian, chunks, idx, F):
    """counter block: IV `W` with its counter field replaced by (field + idx) mod 2^w.
    BE flavours: last w/8 bytes, big endian.  LE flavours: first w/8 bytes, little endian."""
    cs = w_bits // 8
    total = chunks * cs
    if endian == "be":
        field = T.bslice(W, total - cs, cs, F)
        rest = T.bslice(W, ZERO, total - cs, F)
        v = T.iadd(T.ifrombytes("be", w_bits, field, F), idx)
        return T.bnorm(rest + T.itobytes("be", v, F), F)
    field = T.bslice(W, ZERO, cs, F)
    rest = T.bslice(W, cs, total - cs, F)
    v = T.iadd(T.ifrombytes("le", w_bits, field, F), idx)
    return T.bnorm(T.itobytes("le", v, F) + rest, F)


# ---------------------------------------------------------------- BelT-CTR (STB 34.101.31)
def belt_s0(IV, F):
    return T.ifrombytes("le", 128, T.mkcipher("E", IV, F), F)


def belt_ks(s0, i, F):
    """keystream block i >= 1: E(le(s0 + i))"""
    return T.mkcipher("E", T.itobytes("le", T.iadd(s0, i), F), F)


# ---------------------------------------------------------------- ciphertext stealing
def cbc_chain_rec(IV, inp, F):
    """recurrence of CBC encryption over the full blocks of `inp` (block j = inp[j*bs..])."""
    sv = T.fresh("$sp")
    T.declare_var(sv, BS)
    j = T.fresh("$sj")
    blk = T.bslice(inp, Lin.sym(j) * BS, BS, _idxF(F, j))
    step = T.mkcipher("E", T.bxor(blk, T.bvar(sv), F), F)
    return T.mkrec(IV, step, step, BS, sv, j, _idxF(F, j))


def _idxF(F, j):
    F2 = F.copy()
    F2.add_ge(Lin.sym(j))
    return F2


def _map(F, lo, hi, fn):
    """blocks fn(j) for j in [lo,hi)."""
    if F.prove_eq(hi - lo):
        return ()
    j = T.fresh("$mj")
    v = Lin.sym(j)
    F2 = F.copy()
    F2.add_ge(v - lo)
    F2.add_ge(hi - 1 - v)
    return T.bnorm((("m", j, lin(lo), lin(hi), BS, fn(v, F2)),), F)


def cts_spec(scheme, variant, dir_, k, d, inp, IV, F):
    """whole output for a message of k full blocks + d tail bytes (k >= 1, 0 <= d < bs).
    scheme in {'cbc','ecb'}, variant in {1,2,3}, dir_ in {'enc','dec'}.
    NIST SP 800-38A Addendum.  Returns BStr of length k*bs+d."""
    k = lin(k)
    d = lin(d)

    def blk(j, F2=F):
        return T.bslice(inp, lin(j) * BS, BS, F2)

    tail = T.bslice(inp, k * BS, d, F)
    has_tail = not F.prove_eq(d)
    if has_tail and not F.prove_ge(d - 1):
        raise T.Undecided("cts_spec needs d==0 or d>=1 decided")
    k1 = F.prove_eq(k - 1)
    if not k1 and not F.prove_ge(k - 2):
        raise T.Undecided("cts_spec needs k==1 or k>=2 decided")

    if dir_ == "enc":
        if scheme == "cbc":
            rid = cbc_chain_rec(IV, inp, F)

            def C(j, F2=F):
                return T.rec_out(rid, j, F2)
            prevC = C(k - 1)
        else:
            def C(j, F2=F):
                return T.mkcipher("E", blk(j, F2), F2)
            prevC = C(k - 1)
        if not has_tail:
            if variant == 3 and not k1:
                return T.bnorm(_map(F, ZERO, k - 2, C) + C(k - 1) + C(k - 2), F)
            return T.bnorm(_map(F, ZERO, k, C), F)
        # partial final block
        if scheme == "cbc":
            padded = T.bnorm(tail + T.bzero(BS - d), F)
            Cn = T.mkcipher("E", T.bxor(padded, prevC, F), F)
        else:
            Cn = T.mkcipher("E", T.bnorm(tail + T.bslice(prevC, d, BS - d, F), F), F)
        Cpen = T.bslice(prevC, ZERO, d, F)
        head = _map(F, ZERO, k - 1, C)
        if variant == 1:
            return T.bnorm(head + Cpen + Cn, F)
        return T.bnorm(head + Cn + Cpen, F)

    # ---- decryption of an arbitrary buffer
    def cbcdec(j, F2, cur):
        # plaintext j of plain CBC decryption of blocks cur(j)
        prev = ("i", ("eq", lin(j)), BS, IV, cur(j - 1, F2))
        return T.bxor(T.mkcipher("D", cur(j, F2), F2), T.bnorm((prev,), F2), F2)

    if not has_tail:
        if scheme == "cbc":
            if variant == 3 and not k1:
                # undo the exchange of the last two blocks, then plain CBC decryption
                head = _map(F, ZERO, k - 2, lambda j, F2: cbcdec(j, F2, blk))
                cl, cp = blk(k - 2), blk(k - 1)   # stored order: C_n, C_{n-1}
                prev = IV if F.prove_eq(k - 2) else blk(k - 3)
                p_pen = T.bxor(T.mkcipher("D", cp, F), prev, F)
                p_last = T.bxor(T.mkcipher("D", cl, F), cp, F)
                return T.bnorm(head + p_pen + p_last, F)
            return T.bnorm(_map(F, ZERO, k, lambda j, F2: cbcdec(j, F2, blk)), F)
        else:
            def Dj(j, F2=F):
                return T.mkcipher("D", blk(j, F2), F2)
            if variant == 3 and not k1:
                return T.bnorm(_map(F, ZERO, k - 2, Dj) + Dj(k - 1) + Dj(k - 2), F)
            return T.bnorm(_map(F, ZERO, k, Dj), F)
    # partial: locate C*_{n-1} (d bytes) and C_n (bs bytes)
    base = (k - 1) * BS
    if variant == 1:
        cpen_s = T.bslice(inp, base, d, F)
        clast = T.bslice(inp, base + d, BS, F)
    else:
        clast = T.bslice(inp, base, BS, F)
        cpen_s = T.bslice(inp, base + BS, d, F)
    X = T.mkcipher("D", clast, F)
    cpen = T.bnorm(cpen_s + T.bslice(X, d, BS - d, F), F)
    if scheme == "cbc":
        p_last = T.bxor(T.bslice(X, ZERO, d, F), cpen_s, F)
        prev = IV if k1 else blk(k - 2)
        p_pen = T.bxor(T.mkcipher("D", cpen, F), prev, F)
        head = _map(F, ZERO, k - 1, lambda j, F2: cbcdec(j, F2, blk))
    else:
        p_last = T.bslice(X, ZERO, d, F)
        p_pen = T.mkcipher("D", cpen, F)
        head = _map(F, ZERO, k - 1, lambda j, F2: T.mkcipher("D", blk(j, F2), F2))
    return T.bnorm(head + p_pen + p_last, F)
