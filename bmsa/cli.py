"""Command line driver: run the rules of one property, write evidence, report violations."""
import hashlib
import json
import os
import re
import sys
import time
import traceback

from . import facts as FX
from .report import Report

VERIF = FX.VERIF
EVID = os.environ.get("BMSA_EVIDENCE_DIR") or os.path.join(VERIF, "evidence")
REPLAY = os.path.join(EVID, "replay")
KNOWN = os.path.join(VERIF, "known_findings.json")

TRUSTED = [
    "T1 primitive-effect table bmsa/prims.py (inout/hybrid-array/cipher/core functions called by the kernels)",
    "T2 driver contract of cipher 0.5.0-pre.8 (closure called once; blocks in order; par groups then tail)",
    "T3 block cipher backend is a keyed permutation pair: D(E(x))=E(D(x))=x, par = element-wise",
    "T4 rustc nightly MIR (-Zmir-opt-level=0) faithfully renders the source; cargo's cfg/feature selection",
    "T5 zeroize's Zeroize impls overwrite the value",
]


def load_known():
    if not os.path.exists(KNOWN):
        return {"known": [], "fixed": []}
    with open(KNOWN) as f:
        return json.load(f)


def main(argv):
    if not argv:
        print(__doc__ or "usage: check <Cxx> [--tier quick|thorough]")
        return 2
    prop = argv[0]
    tier = os.environ.get("VERIF_TIER", "quick")
    replay = None
    i = 1
    while i < len(argv):
        if argv[i] == "--tier":
            tier = argv[i + 1]
            i += 2
        elif argv[i] == "--replay":
            replay = argv[i + 1]
            i += 2
        else:
            i += 1
    if tier not in ("quick", "thorough"):
        tier = "quick"
    seed = int(os.environ.get("VERIF_SEED", "0") or 0)
    t0 = time.time()
    from . import props
    if prop not in props.REGISTRY:
        print("unknown property %s" % prop)
        return 2
    os.makedirs(REPLAY, exist_ok=True)
    for f in os.listdir(REPLAY):
        if f.startswith(prop + "-"):
            try:
                os.remove(os.path.join(REPLAY, f))
            except OSError:
                pass
    rep = Report(prop)
    fatal = None
    try:
        pins = FX.check_pins()
        for b in pins:
            rep.ob("trusted-base.pinned-version", b.split(":")[0], False, "dependency version differs from the one the primitive table was reviewed for: " + b)
        env = props.Env(tier)
        props.REGISTRY[prop]["run"](rep, env)
    except FX.FactsError as e:
        fatal = "fact extraction failed: %s" % e
    except Exception as e:  # fail closed
        fatal = "internal error: %s\n%s" % (e, traceback.format_exc())
    if fatal:
        rep.ob("framework", "run", False, fatal)
    # floors
    info = dict(props.REGISTRY[prop])
    try:
        info["configs_used"] = sorted(set(getattr(env, "used", [])) | ({"default", "all-features"} if prop in ("C16", "C17") else set()))
        info["non_additive_bodies"] = env.non_additive() if tier == "quick" else []
    except Exception:
        pass
    counts = {}
    for o in rep.obls:
        counts[o["rule"]] = counts.get(o["rule"], 0) + 1
    for rule, floor in info.get("floors", {}).items():
        have = sum(v for r, v in counts.items() if r == rule or r.startswith(rule + "."))
        if have < floor:
            rep.ob("floor", rule, False, "only %d instances of rule '%s' analysed, at least %d confirmed on the pinned tree: an anchor disappeared" % (have, rule, floor))
    # known findings
    known = load_known()
    kkeys = {k["key"]: k for k in known.get("known", []) if k.get("property") == prop}
    viol = []
    known_hit = []
    for o in rep.violations():
        bk = o.get("base_key", o["key"])
        if bk in kkeys:
            known_hit.append((o, kkeys[bk]))
        else:
            viol.append(o)
    printed = set()
    for o, k in known_hit:
        if k["key"] in printed:
            continue
        printed.add(k["key"])
        print("KNOWN-FINDING: property=%s %s" % (prop, k["what"]))
    rc = 0
    for o in viol:
        h = hashlib.sha1(o["key"].encode()).hexdigest()[:10]
        path = os.path.join(REPLAY, "%s-%s.json" % (prop, h))
        with open(path, "w") as f:
            json.dump({"property": prop, "rule": o["rule"], "instance": o["instance"], "detail": o["detail"], "loc": o["loc"],
                       "computed": o["computed"], "expected": o["expected"], "undecided": o["undecided"], "tier": tier,
                       "replay_cmd": "./bin/check %s --tier %s" % (prop, tier)}, f, indent=1)
        print("VIOLATION property=%s replay=%s" % (prop, path))
        print("  rule=%s instance=%s at %s: %s" % (o["rule"], o["instance"], o["loc"], o["detail"]))
        if o["computed"] is not None:
            print("    computed: %s" % (o["computed"],))
        if o["expected"] is not None:
            print("    expected: %s" % (o["expected"],))
        rc = 1
    wall = time.time() - t0
    write_evidence(prop, tier, seed, rep, info, viol, known_hit, wall)
    ok = len(rep.obls) - len(rep.violations())
    print("%s: %d obligations, %d discharged, %d known findings, %d violations (%.1fs, tier %s)" % (prop, len(rep.obls), ok, len(known_hit), len(viol), wall, tier))
    return rc


def write_evidence(prop, tier, seed, rep, info, viol, known_hit, wall):
    os.makedirs(EVID, exist_ok=True)
    nontrivial = set()
    for o in rep.obls:
        if o["rule"] in ("floor", "framework"):
            continue
        nontrivial.add(o["key"])
    samples = []
    seen_rules = set()
    for o in rep.obls:
        if o["rule"] in seen_rules or len(samples) >= 12:
            continue
        seen_rules.add(o["rule"])
        samples.append({"rule": o["rule"], "instance": o["instance"], "at": o["loc"], "ok": o["ok"], "detail": o["detail"],
                        "computed": o["computed"], "expected": o["expected"]})
    rules = {}
    for o in rep.obls:
        r = rules.setdefault(o["rule"], {"instances": 0, "discharged": 0})
        r["instances"] += 1
        r["discharged"] += 1 if o["ok"] else 0
    ev = {
        "property_id": prop,
        "tier": tier,
        "seed": seed,
        "level": info.get("level", "proof"),
        "coverage": {
            "obligations": len(rep.obls),
            "discharged": len(rep.obls) - len(rep.violations()),
            "evaluations": len(rep.obls),
            "distinct_nontrivial": len(nontrivial),
            "rule": "one obligation per (rule, code instance) discovered through the traits/types of the type-checked program; distinct = distinct (rule, instance) keys; non-trivial = every instance is a function body, impl or type of /repo that was actually analysed",
            "samples": samples,
            "checker_cmd": "./bin/check %s --tier %s" % (prop, tier),
            "trusted_base": TRUSTED + ["pinned: " + ", ".join("%s %s" % kv for kv in FX.PINNED.items())],
            "explanation": info.get("explanation", ""),
            "rules": rules,
            "known_findings_reported": [k["what"] for _, k in known_hit],
            "configs": info.get("configs_used", []),
            "bodies_only_without_a_feature": info.get("non_additive_bodies", []),
            "exhaustive": True,
        },
        "assumptions": TRUSTED,
        "wall_s": round(wall, 2),
        "violations": len(viol),
    }
    tmp = os.path.join(EVID, "%s.json.tmp%d" % (prop, os.getpid()))
    with open(tmp, "w") as f:
        json.dump(ev, f, indent=1, default=str)
    os.rename(tmp, os.path.join(EVID, "%s.json" % prop))
