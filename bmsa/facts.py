"""Fact extraction: run the rustc_private driver over /repo's working tree and load
the JSON facts (items + MIR) per crate and feature configuration.

Nothing here looks at source text except to hash it for the cache key.
"""
import fcntl
import hashlib
import json
import os
import shutil
import subprocess
import sys
import tempfile
import time

VERIF = os.path.dirname(os.path.dirname(os.path.abspath(__file__)))
REPO = os.environ.get("BMSA_REPO", "/repo")
DRIVER_DIR = os.path.join(VERIF, "bmsa", "driver")
DRIVER_BIN = os.path.join(DRIVER_DIR, "target", "debug", "bmsa-driver")
CACHE = os.path.join(VERIF, ".cache")

WORKSPACE_CRATES = ["cbc", "pcbc", "ige", "cfb_mode", "cfb8", "ofb", "ctr", "belt_ctr", "cts"]
DEP_CRATES = ["cipher", "inout"]
ALL_CRATES = WORKSPACE_CRATES + DEP_CRATES

CONFIGS = {
    "default": [],
    "all-features": ["--all-features"],
    "no-default-features": ["--no-default-features"],
}

# dependency versions the primitive table / driver contract (T1, T2) was reviewed for
PINNED = {
    "cipher": "0.5.0-pre.8",
    "inout": "0.2.0-rc.4",
    "hybrid-array": "0.3.0",
    "crypto-common": "0.2.0-rc.2",
}


class FactsError(Exception):
    pass


def _env():
    e = dict(os.environ)
    e["CARGO_NET_OFFLINE"] = "true"
    return e


def nightly_sysroot():
    return subprocess.check_output(["rustc", "+nightly", "--print", "sysroot"], text=True, env=_env()).strip()


def ensure_driver(verbose=False):
    src = [os.path.join(DRIVER_DIR, "src", "main.rs"), os.path.join(DRIVER_DIR, "Cargo.toml")]
    need = not os.path.exists(DRIVER_BIN) or any(os.path.getmtime(s) > os.path.getmtime(DRIVER_BIN) for s in src)
    if not need:
        return
    os.makedirs(CACHE, exist_ok=True)
    with open(os.path.join(CACHE, ".driver.lock"), "w") as lk:
        fcntl.flock(lk, fcntl.LOCK_EX)
        need = not os.path.exists(DRIVER_BIN) or any(os.path.getmtime(s) > os.path.getmtime(DRIVER_BIN) for s in src)
        if need:
            r = subprocess.run(["cargo", "build", "--offline"], cwd=DRIVER_DIR, env=_env(), stdout=subprocess.PIPE, stderr=subprocess.STDOUT, text=True)
            if r.returncode != 0:
                raise FactsError("driver build failed:\n" + r.stdout[-4000:])


def tree_hash(root=None, extra=()):
    root = root or REPO
    h = hashlib.sha256()
    files = []
    for dp, dn, fn in os.walk(root):
        dn[:] = [d for d in dn if d not in ("target", ".git")]
        for f in fn:
            if f.endswith(".rs") or f in ("Cargo.toml", "Cargo.lock") or f.endswith(".md"):
                files.append(os.path.join(dp, f))
    for f in sorted(files):
        h.update(os.path.relpath(f, root).encode())
        h.update(b"\0")
        with open(f, "rb") as fh:
            h.update(fh.read())
        h.update(b"\0")
    with open(os.path.join(DRIVER_DIR, "src", "main.rs"), "rb") as fh:
        h.update(fh.read())
    for x in extra:
        h.update(str(x).encode())
    return h.hexdigest()[:24]


def lock_versions(root=None):
    root = root or REPO
    vers = {}
    name = None
    with open(os.path.join(root, "Cargo.lock")) as f:
        for line in f:
            line = line.strip()
            if line.startswith("name = "):
                name = line.split('"')[1]
            elif line.startswith("version = ") and name:
                vers.setdefault(name, []).append(line.split('"')[1])
    return vers


def check_pins(root=None):
    vers = lock_versions(root)
    bad = []
    for k, v in PINNED.items():
        if vers.get(k) != [v]:
            bad.append("%s: reviewed for %s, Cargo.lock has %s" % (k, v, vers.get(k)))
    return bad


def _run_driver(root, config, out_dir, crates, packages=None, manifest_dir=None):
    target = tempfile.mkdtemp(prefix="bmsa-target-")
    try:
        env = _env()
        env["LD_LIBRARY_PATH"] = os.path.join(nightly_sysroot(), "lib") + ":" + env.get("LD_LIBRARY_PATH", "")
        env["RUSTFLAGS"] = "-Zmir-opt-level=0 -Awarnings"
        env["RUSTC_WRAPPER"] = DRIVER_BIN
        env["BMSA_OUT"] = out_dir
        env["BMSA_CRATES"] = ",".join(crates)
        env["CARGO_TARGET_DIR"] = target
        env.pop("RUSTC_WORKSPACE_WRAPPER", None)
        cmd = ["cargo", "+nightly", "check", "--lib", "--offline", "-j", "16"]
        if packages:
            for p in packages:
                cmd += ["-p", p]
        else:
            cmd += ["--workspace"]
        cmd += CONFIGS[config]
        r = subprocess.run(cmd, cwd=manifest_dir or root, env=env, stdout=subprocess.PIPE, stderr=subprocess.STDOUT, text=True)
        if r.returncode != 0:
            raise FactsError("cargo check (%s) failed in %s:\n%s" % (config, root, r.stdout[-6000:]))
    finally:
        shutil.rmtree(target, ignore_errors=True)


def _prune_cache(keep=8):
    try:
        ents = [os.path.join(CACHE, d) for d in os.listdir(CACHE) if os.path.isdir(os.path.join(CACHE, d))]
    except FileNotFoundError:
        return
    ents.sort(key=lambda p: os.path.getmtime(p), reverse=True)
    for p in ents[keep:]:
        shutil.rmtree(p, ignore_errors=True)


def extract(config, root=None, verbose=False):
    """Return directory holding <crate>.json for every crate of ALL_CRATES for `config`."""
    root = root or REPO
    ensure_driver()
    key = tree_hash(root)
    d = os.path.join(CACHE, key, config)
    done = os.path.join(d, ".complete")
    if os.path.exists(done):
        os.utime(os.path.join(CACHE, key), None)
        return d
    os.makedirs(os.path.join(CACHE, key), exist_ok=True)
    with open(os.path.join(CACHE, key, ".lock-" + config), "w") as lk:
        fcntl.flock(lk, fcntl.LOCK_EX)
        if os.path.exists(done):
            return d
        tmp = d + ".tmp%d" % os.getpid()
        shutil.rmtree(tmp, ignore_errors=True)
        os.makedirs(tmp)
        t0 = time.time()
        _run_driver(root, config, tmp, ALL_CRATES)
        missing = [c for c in ALL_CRATES if not os.path.exists(os.path.join(tmp, c + ".json")) or os.path.getsize(os.path.join(tmp, c + ".json")) < 100]
        if missing:
            raise FactsError("driver produced no facts for %s (config %s)" % (missing, config))
        with open(os.path.join(tmp, ".complete"), "w") as f:
            f.write("%.2f\n" % (time.time() - t0))
        shutil.rmtree(d, ignore_errors=True)
        os.rename(tmp, d)
    _prune_cache()
    return d


def extract_crate_dir(manifest_dir, crates, config="default", packages=None):
    """Run the driver over an auxiliary crate (fixtures); never cached by repo hash."""
    ensure_driver()
    out = tempfile.mkdtemp(prefix="bmsa-aux-")
    _run_driver(manifest_dir, config, out, crates, packages=packages, manifest_dir=manifest_dir)
    return out


class Crate:
    def __init__(self, j):
        self.j = j
        self.name = j["crate"]
        self.types = j["types"]
        self.bodies = j["bodies"]
        self.impls = j["impls"]
        self.adts = j["adts"]
        self.traits = j["traits"]
        self.statics = j["statics"]
        self.aliases = j["aliases"]
        self.by_path = {}
        for b in self.bodies:
            self.by_path[b["path"]] = b
            b["_crate"] = self.name

    def ty(self, ix):
        return self.types[ix]

    def ty_s(self, ix):
        return self.types[ix]["s"]

    def bodies_of_impl(self, impl):
        return [b for b in self.bodies if b.get("impl_id") == impl["id"]]


class FactBase:
    """Facts of one configuration."""

    def __init__(self, config, root=None, directory=None):
        self.config = config
        self.dir = directory or extract(config, root)
        self.crates = {}
        for f in sorted(os.listdir(self.dir)):
            if f.endswith(".json"):
                with open(os.path.join(self.dir, f)) as fh:
                    c = Crate(json.load(fh))
                self.crates[c.name] = c

    def workspace(self):
        return [self.crates[c] for c in WORKSPACE_CRATES if c in self.crates]

    def crate(self, name):
        return self.crates[name]

    def impls_of(self, trait_name, crates=None, trait_krate=None):
        """(crate, impl) for every impl of a trait with the given *name* (and defining crate)."""
        out = []
        for c in (crates or self.workspace()):
            for im in c.impls:
                if im.get("trait_name") == trait_name and (trait_krate is None or im.get("trait_krate") == trait_krate):
                    out.append((c, im))
        return out

    def trait_def(self, krate, name):
        for t in self.crates[krate].traits:
            if t["name"] == name:
                return t
        return None


def load_all(tier="quick", root=None):
    cfgs = ["default", "all-features"] if tier == "quick" else ["default", "all-features", "no-default-features"]
    return {c: FactBase(c, root) for c in cfgs}


if __name__ == "__main__":
    t0 = time.time()
    for c in sys.argv[1:] or ["default"]:
        print(c, extract(c), "%.1fs" % (time.time() - t0))
