"""Rules over items, types and CFGs (no term interpretation): ownership / sharing (C16),
Debug taint and zeroize coverage (C17), crate attributes, outgoing-call allow-list."""
from . import cfg as G
from .report import loc_of

FORBIDDEN_ADT = ("core::cell::", "::rc::", "::sync::", "atomic::", "std::", "alloc::rc", "alloc::sync", "Mutex", "RwLock", "OnceCell", "OnceLock", "LazyLock", "LazyCell")
ALLOWED_KRATES = {"core", "cipher", "inout", "hybrid_array", "crypto_common", "typenum", "zeroize", "belt_block", "block_padding", "compiler_builtins"}
CORE_FAMILIES = ("core::clone", "core::convert", "core::default", "core::fmt", "core::iter", "core::mem::swap", "core::mem::replace",
                 "core::num", "core::ops", "core::option", "core::result", "core::slice", "core::array", "core::panicking", "core::cmp",
                 "core::marker", "core::str", "core::intrinsics::discriminant_value", "core::mem::drop", "core::mem::take", "core::hint::must_use",
                 "core::borrow", "core::mem::size_of")


# families of `core` through which hidden shared state, nondeterminism or raw memory can enter; every
# other function of `core` is a deterministic function of its arguments (no clock, no RNG, no global
# state exists in `core` outside these)
CORE_DENIED = ("core::sync", "core::cell", "core::ptr", "core::task", "core::future", "core::arch", "core::alloc", "core::ffi",
               "core::random", "core::mem::transmute", "core::mem::zeroed", "core::mem::uninitialized", "core::mem::MaybeUninit",
               "core::mem::maybe_uninit", "core::hint::spin_loop", "core::hint::unreachable_unchecked", "core::thread", "core::os")
CORE_INTRINSICS_OK = ("core::intrinsics::discriminant_value", "core::intrinsics::size_of", "core::intrinsics::min_align_of")


def core_call_denied(path):
    if "core::intrinsics" in path:
        return not any(x in path for x in CORE_INTRINSICS_OK)
    return any(path.startswith(f) or ("<" in path and f in path) for f in CORE_DENIED)


def sloc(x):
    sp = x.get("span")
    return "%s:%d" % (sp["file"], sp["line"]) if sp else None


def type_problems(cr, tix, seen=None, inside_phantom=False):
    """list of reasons why a field type is not plainly owned by value."""
    if seen is None:
        seen = set()
    if tix in seen:
        return []
    seen.add(tix)
    t = cr.types[tix]
    k = t["k"]
    out = []
    if k == "ref":
        out.append("reference %s" % t["s"])
    elif k == "rawptr":
        out.append("raw pointer %s" % t["s"])
    elif k == "fnptr":
        out.append("function pointer")
    elif k == "dyn":
        out.append("trait object")
    elif k == "adt":
        a = t["adt"]
        if a.endswith("PhantomData"):
            return []
        if any(f in a for f in FORBIDDEN_ADT):
            out.append("shared/interior-mutable type %s" % a)
        for g in t.get("args", []):
            if "ty" in g:
                out += type_problems(cr, g["ty"], seen)
    elif k in ("array", "slice"):
        out += type_problems(cr, t["inner"], seen)
    elif k == "tuple":
        for e in t["elems"]:
            out += type_problems(cr, e, seen)
    elif k == "alias":
        for g in t.get("args", []):
            if "ty" in g:
                out += type_problems(cr, g["ty"], seen)
    return out


def clone_impls(cr):
    return [im for im in cr.impls if im.get("trait") == "core::clone::Clone"]


def adt_by_path(cr, path):
    for a in cr.adts:
        if a["path"] == path:
            return a
    return None


def check_ownership(rep, fb):
    """C16 (i): fields of every public or cloneable type are owned by value."""
    for cr in fb.workspace():
        cloneable = {im.get("self_adt") for im in clone_impls(cr)}
        for a in cr.adts:
            if not (a["vis"] == "Public" or a["path"] in cloneable):
                continue
            inst = "%s::%s" % (cr.name, a["path"])
            probs = []
            for v in a["variants"]:
                for f in v["fields"]:
                    for pr in type_problems(cr, f["ty"]):
                        probs.append("%s: %s" % (f["name"], pr))
            rep.ob("own.fields-by-value", inst, not probs, "; ".join(probs) or "all fields owned by value (no reference, pointer, shared or interior-mutable type)", sloc(a))


def check_statics(rep, fb, crates=None):
    """C16 (iii): no mutable or interior-mutable global state."""
    n = 0
    for cr in (crates or fb.workspace()):
        for s in cr.statics:
            n += 1
            bad = s["mut"] or not s["freeze"]
            rep.ob("own.no-shared-static", "%s::%s" % (cr.name, s["path"]), not bad, "static %s: mut=%s freeze=%s" % (s["ty_s"], s["mut"], s["freeze"]), sloc(s))
        rep.ob("own.statics-scanned", cr.name, True, "%d statics in crate" % len(cr.statics))
    return n


def check_crate_attrs(rep, fb):
    """C16 (iv): no_std and unsafe code forbidden/denied in all workspace crates."""
    for cr in fb.workspace():
        rep.ob("own.no-std", cr.name, cr.j["no_std"], "#![no_std] %s" % ("present" if cr.j["no_std"] else "missing"))
        lvl = cr.j["unsafe_code_level"]
        rep.ob("own.no-unsafe", cr.name, lvl in ("Forbid", "Deny"), "unsafe_code lint level at crate root: %s" % lvl)


def check_outgoing_calls(rep, fb):
    """C16 (v): calls leaving the workspace stay inside the allow-listed deterministic families."""
    for cr in fb.workspace():
        bad = []
        total = 0
        for b in cr.bodies:
            for i, t, fn in G.calls(b, include_cleanup=True):
                total += 1
                kr = fn.get("krate")
                path = fn["path"]
                res = fn.get("resolved")
                for cand in [fn] + ([res] if res else []):
                    ck = cand.get("krate")
                    cp = cand["path"]
                    if ck == cr.name or ck in [c.name for c in fb.workspace()]:
                        continue
                    if ck not in ALLOWED_KRATES:
                        bad.append("%s calls %s (crate %s)" % (b["path"], cp, ck))
                    elif ck == "core" and core_call_denied(cp):
                        bad.append("%s calls %s" % (b["path"], cp))
        rep.ob("own.calls-allow-listed", cr.name, not bad, "; ".join(bad[:5]) or "%d call sites, all inside allow-listed deterministic callee families" % total)


def _retag_opaque(v, tag):
    if isinstance(v, tuple) and v and v[0] == "opaque" and len(v) == 2 and isinstance(v[1], str):
        return ("opaque", v[1] + tag)
    if isinstance(v, tuple) and v and v[0] == "struct":
        return ("struct", v[1], {k: _retag_opaque(x, tag) for k, x in v[2].items()})
    return v


def check_clone_bodies(rep, fb, crates=None):
    """C16 (ii): every Clone::clone returns a field-wise copy of *self (interpreted on the term domain)."""
    from .modes import run_plain, values_equal
    from .kernels import base_ctx, base_facts, ctr_flavors, ctr_ctx
    from .terms import Undecided
    for cr in fb.workspace():
        if crates is not None and cr.name not in crates:
            continue
        for im in clone_impls(cr):
            body = None
            for b in cr.bodies_of_impl(im):
                if b["name"] == "clone":
                    body = b
            inst = "%s::%s" % (cr.name, im["self"])
            if body is None:
                rep.ob("own.clone-fieldwise", inst, False, "no MIR for clone")
                continue
            ctxs = [(base_ctx(), base_facts(), "")]
            if cr.name == "ctr":
                crx, fl = ctr_flavors(fb)
                if "CtrCore" in im["self"]:
                    ctxs = [ctr_ctx(crx, f) + (f["self"],) for f in fl]
                else:
                    ctxs = [ctr_ctx(crx, fl[0]) + ("",)]
            if cr.name == "belt_ctr":
                c = base_ctx()
                from .lin import lin
                c.alias_len["BlockSize"] = lin(16)
                c.alias_len["IvSize"] = lin(16)
                ctxs = [(c, base_facts(), "")]
            for ctx, F, tag in ctxs:
                ctx.param_len.setdefault("N", ctx.alias_len["BlockSize"])
                try:
                    ip, paths = run_plain(fb, cr, body, ["self"], ctx, F)
                    ok = len(paths) == 1
                    detail = "clone(&self) returns a value equal to *self field by field"
                    if ok:
                        ret = paths[0]["ret"]
                        selfv = paths[0]["cells"].get("self")
                        ok = selfv is not None and values_equal(ret, selfv, paths[0]["F"])
                        if not ok:
                            from .kernels import show_value
                            detail = "clone returns %s for self %s" % (show_value(ret), show_value(selfv))
                    rep.ob("own.clone-fieldwise", inst + (("[" + tag + "]") if tag else ""), ok, detail, loc_of(body))
                except Undecided as e:
                    rep.undecided("own.clone-fieldwise", inst, str(e), loc_of(body))
            # an overridden clone_from must leave *self equal to the source as well
            cf = None
            for b in cr.bodies_of_impl(im):
                if b["name"] == "clone_from":
                    cf = b
            if cf is not None:
                ctx, F, tag = ctxs[0]
                try:
                    # the destination's opaque parts (the cipher, generic fields) get an identity of their
                    # own: an opaque value is otherwise known by its type only, and a clone_from that
                    # keeps the destination's cipher would compare equal to the source
                    def build(ip_, st_, cf=cf, cr=cr):
                        from .kernels import abstract_value
                        args = []
                        for i, nm in ((1, "dst"), (2, "src")):
                            args.append(abstract_value(ip_, cr, st_, cf["locals"][i]["ty"], nm))
                        if ("A", "dst") in st_.heap:
                            st_.heap[("A", "dst")] = _retag_opaque(st_.heap[("A", "dst")], "@dst")
                        cells = {c[1]: c for c in st_.heap if c[0] == "A"}
                        return args, cells
                    from .kernels import run_method
                    ip, paths = run_method(fb, cr, cf, build, ctx, F)
                    ok = len(paths) == 1
                    detail = "clone_from(&mut self, src) leaves *self equal to *src field by field"
                    if ok:
                        d, s_ = paths[0]["cells"].get("dst"), paths[0]["cells"].get("src")
                        ok = d is not None and s_ is not None and values_equal(d, s_, paths[0]["F"])
                        if not ok:
                            from .kernels import show_value
                            detail = "after clone_from: self = %s, source = %s" % (show_value(d), show_value(s_))
                    rep.ob("own.clone-fieldwise", inst + "::clone_from", ok, detail, loc_of(cf))
                except Undecided as e:
                    rep.undecided("own.clone-fieldwise", inst + "::clone_from", str(e), loc_of(cf))


# ---------------------------------------------------------------- C17
def is_state_field(cr, f):
    """fields that hold chaining state: everything except the cipher (type parameter), markers and cursors."""
    t = cr.types[f["ty"]]
    if t["k"] == "param":
        return False, "cipher/generic parameter"
    if t["k"] == "ref":
        return False, "borrow of state owned elsewhere (transient helper)"
    if t["k"] == "adt" and t["adt"].endswith("PhantomData"):
        return False, "marker"
    if t["k"] == "uint" and t["name"] == "usize":
        return False, "byte cursor (position, not chaining state)"
    if t["k"] == "adt" and t.get("local"):
        # a workspace wrapper (newtype) that itself only borrows / marks: not owned state
        a = adt_by_path(cr, t["adt"])
        if a is not None and a["kind"] == "struct" and a["variants"] and a["variants"][0]["fields"] and _depth[0] < 4:
            _depth[0] += 1
            try:
                inner = [is_state_field(cr, g) for g in a["variants"][0]["fields"]]
            finally:
                _depth[0] -= 1
            if not any(x[0] for x in inner):
                return False, "wrapper around: " + "; ".join(sorted(set(x[1] for x in inner)))
    return True, ""


_depth = [0]


def state_bearing(cr, a):
    for v in a["variants"]:
        for f in v["fields"]:
            if is_state_field(cr, f)[0]:
                return True
    return False


def fmt_taint_violations(body):
    """calls in a fmt/write_alg_name body that receive a value derived from `self` (arg 1)."""
    if body["arg_count"] < 2:
        return []          # write_alg_name(f): no self at all
    tainted = G.taint_from(body, {1})
    out = []
    for i, t, fn in G.calls(body):
        used = set()
        for a in t["args"]:
            used |= G.operand_locals(a)
        if used & tainted:
            out.append(fn["path"])
    # taint can also flow through a closure/adt aggregate passed to a formatter: covered by taint closure
    return out


def check_debug_opaque(rep, fb):
    """C17 (a): Debug / AlgorithmName text of state-bearing types never derives from *self."""
    for cr in fb.workspace():
        for im in cr.impls:
            if im.get("trait") not in ("core::fmt::Debug", "cipher::AlgorithmName", "core::fmt::Display"):
                continue
            adt = adt_by_path(cr, im.get("self_adt")) if im.get("self_adt_local") else None
            if adt is None or not state_bearing(cr, adt):
                continue
            for b in cr.bodies_of_impl(im):
                inst = "%s::%s" % (cr.name, b["path"])
                viol = fmt_taint_violations(b)
                rep.ob("leak.debug-opaque", inst, not viol, ("value derived from self reaches: " + ", ".join(sorted(set(viol)))) if viol else "no value derived from self reaches any call", loc_of(b))


def check_wrapper_debug(rep, fb):
    """C17 (a) for the public byte-level aliases: the Debug impl of the foreign wrapper type they resolve to."""
    cip = fb.crates.get("cipher")
    for cr in fb.workspace():
        for al in cr.aliases:
            t = cr.types[al["ty"]]
            if al["vis"] != "Public" or t["k"] != "adt" or t.get("local"):
                continue
            inst = "%s::%s" % (cr.name, al["name"])
            target = t["adt"]
            found = False
            for im in cip.impls:
                if im.get("trait") == "core::fmt::Debug" and im.get("self_adt") and target.endswith(im["self_adt"].split("::")[-1]):
                    for b in cip.bodies_of_impl(im):
                        found = True
                        viol = fmt_taint_violations(b)
                        rep.ob("leak.alias-debug-opaque", inst, not viol, ("Debug of %s passes self-derived data to: %s" % (target, ", ".join(sorted(set(viol))))) if viol else "opaque", loc_of(b))
            if not found:
                rep.ob("leak.alias-debug-opaque", inst, True, "aliased type %s has no Debug impl with MIR in cipher" % target)


def _callee_for(cr, body, t, fn, self_adt):
    """workspace body a call goes to; a method of a workspace trait called on a generic `Self` is
    taken from the impl for `self_adt`, the type whose Drop is being analysed."""
    callee = cr.by_path.get((fn.get("resolved") or fn)["path"]) or cr.by_path.get(fn["path"])
    if callee is not None and callee.get("blocks"):
        return callee
    if fn.get("trait") and self_adt and t["args"] and t["args"][0]["k"] in ("copy", "move"):
        rt = cr.types[body["locals"][t["args"][0]["place"]["local"]]["ty"]]
        while rt["k"] in ("ref", "rawptr", "ptr") and "inner" in rt:
            rt = cr.types[rt["inner"]]
        adt = rt.get("adt") if rt["k"] == "adt" else (self_adt if rt["k"] == "param" and rt.get("name") == "Self" else None)
        if adt is None:
            return None
        ims = [im for im in cr.impls if im.get("trait") == fn["trait"] and im.get("self_adt") == adt]
        if len(ims) == 1:
            for b in cr.bodies_of_impl(ims[0]):
                if b["name"] == fn["name"]:
                    return b
    return None


def zeroized_paths(cr, body, depth=0, self_adt=None):
    """{(argument index, field path tuple)} wiped by Zeroize::zeroize on every path through `body`,
    directly or through workspace helper functions that receive a reference derived from an argument
    (`self.state.wipe()`); () as path = the whole pointee of that argument."""
    if depth > 4:
        return set()
    dom = G.dominators(body)
    rets = G.return_blocks(body)
    out = set()

    def callres(b_, t_, fn_):
        # which part of which argument an accessor's returned reference points into
        if not fn_.get("local") and not fn_.get("trait"):
            return None
        cal = _callee_for(cr, b_, t_, fn_, self_adt)
        if cal is None:
            return None
        return G.ref_source(cal, 0, types=cr.types, callres=callres)
    for i, t, fn in G.calls(body):
        if not all(i in dom[r] for r in rets):
            continue
        if not t["args"]:
            continue
        if fn.get("trait", "").endswith("Zeroize") and fn["name"] == "zeroize":
            a0 = t["args"][0]
            if a0["k"] in ("copy", "move"):
                src = G.ref_source(body, a0["place"]["local"], types=cr.types, callres=callres)
                if src:
                    out.add((src[0], tuple(str(x) for x in src[1])))
            continue
        callee = _callee_for(cr, body, t, fn, self_adt)
        if callee is None or not (fn.get("local") or fn.get("trait")):
            continue
        inner = zeroized_paths(cr, callee, depth + 1, self_adt)
        for (ai, fpath) in inner:
            if ai - 1 >= len(t["args"]):
                continue
            a = t["args"][ai - 1]
            if a["k"] in ("copy", "move"):
                src = G.ref_source(body, a["place"]["local"], types=cr.types)
                if src:
                    out.add((src[0], tuple(str(x) for x in src[1]) + fpath))
    return out


def drop_zeroizes(cr, im):
    """set of self fields passed to Zeroize::zeroize on every path of Drop::drop."""
    body = None
    for b in cr.bodies_of_impl(im):
        if b["name"] == "drop":
            body = b
    if body is None:
        return None, set()
    covered = set()
    for ai, fpath in zeroized_paths(cr, body, 0, im.get("self_adt")):
        if ai == 1 and fpath:
            covered.add(fpath[0])
            covered.add(".".join(fpath))
    return body, covered


def check_zeroize(rep, fb_all):
    """C17 (b) on the all-features facts: every state field is wiped by Drop::drop."""
    fb = fb_all
    for cr in fb.workspace():
        has_feature = "zeroize" in cr.j["features"]
        drops = {im.get("self_adt"): im for im in cr.impls if im.get("trait") == "core::ops::Drop"}
        # assoc types that stand for state (CtrFlavor::CtrNonce): the ADTs they are bound to
        contained = set()
        for a in cr.adts:
            for v in a["variants"]:
                for f in v["fields"]:
                    ft = cr.types[f["ty"]]
                    if ft["k"] == "adt" and ft.get("local") and ft["adt"] != a["path"]:
                        contained.add(ft["adt"])
        for a in cr.adts:
            if a["kind"] != "struct":
                continue
            if a["path"] in contained and a["path"] not in drops:
                continue      # plain nested state struct: its leaves are checked through the containing type
            fields = a["variants"][0]["fields"]
            st_fields = [f for f in fields if is_state_field(cr, f)[0]]
            exempt = [(f["name"], is_state_field(cr, f)[1]) for f in fields if not is_state_field(cr, f)[0]]
            if not st_fields:
                continue
            if any(cr.types[f["ty"]]["k"] == "adt" and cr.types[f["ty"]]["adt"].endswith("InOutBuf") for f in fields):
                continue   # cts closures: borrow the caller's buffer, consumed by one call
            inst = "%s::%s" % (cr.name, a["path"])
            if not has_feature:
                rep.ob("leak.zeroize-outside-clause", inst, True, "crate %s has no `zeroize` feature: outside the clause 'with the zeroize feature enabled'" % cr.name, sloc(a))
                continue
            im = drops.get(a["path"])
            body, covered = drop_zeroizes(cr, im) if im else (None, set())
            for f in st_fields:
                ok = f["name"] in covered
                why = "Zeroize::zeroize(&mut self.%s) on every path of drop" % f["name"]
                if not ok:
                    # a nested plain state struct whose every state leaf is wiped by this Drop
                    ft = cr.types[f["ty"]]
                    if ft["k"] == "adt" and ft.get("local"):
                        sub = adt_by_path(cr, ft["adt"])
                        if sub is not None and sub["kind"] == "struct" and ft["adt"] not in drops:
                            leaves = [g for g in sub["variants"][0]["fields"] if is_state_field(cr, g)[0]]
                            if leaves and all(("%s.%s" % (f["name"], g["name"])) in covered for g in leaves):
                                ok = True
                                why = "every member of the nested state struct (%s) is zeroized on every path of drop" % ", ".join(g["name"] for g in leaves)
                if not ok:
                    # field whose own type wipes itself on drop
                    ft = cr.types[f["ty"]]
                    inner = self_wiping(cr, ft, drops)
                    if inner:
                        ok = True
                        why = "field type %s wipes itself in its own Drop" % inner
                    else:
                        why = "no zeroize of field `%s` dominating the return of drop%s" % (f["name"], "" if im else " (type has no Drop impl)")
                rep.ob("leak.zeroize-field", inst + "." + f["name"], ok, why, loc_of(body) if body else sloc(a))
            for nm, reason in exempt:
                rep.ob("leak.zeroize-exempt", inst + "." + nm, True, "exempt: " + reason, sloc(a))


def self_wiping(cr, ft, drops):
    """ADT (or every ADT an associated type is bound to) with a Drop that zeroizes all its state fields."""
    cands = []
    if ft["k"] == "adt" and not ft.get("local") and ft["adt"].split("::")[-2:] == ["zeroize", "Zeroizing"]:
        # the dependency's wrapper whose documented contract (and only purpose) is to zeroize its
        # content in its own Drop
        return "zeroize::Zeroizing"
    if ft["k"] == "adt" and ft.get("local"):
        cands = [ft["adt"]]
    elif ft["k"] == "alias":
        nm = ft["alias_def"].split("::")[-1]
        for im in cr.impls:
            for it in im["items"]:
                if it["name"] == nm and "ty" in it:
                    t2 = cr.types[it["ty"]]
                    if t2["k"] == "adt" and t2.get("local"):
                        cands.append(t2["adt"])
                    else:
                        return None
    if not cands:
        return None
    for c in cands:
        a = adt_by_path(cr, c)
        im = drops.get(c)
        if a is None or im is None:
            return None
        _, covered = drop_zeroizes(cr, im)
        for f in a["variants"][0]["fields"]:
            if is_state_field(cr, f)[0] and f["name"] not in covered:
                return None
    return ", ".join(sorted(set(cands)))


# ---------------------------------------------------------------- positive controls
CONTROLS = [
    ("own.no-shared-static", "CALLS"),
    ("own.no-shared-static", "LAST"),
    ("own.fields-by-value", "SharedState"),
    ("own.clone-fieldwise", "Counter"),
    ("own.clone-fieldwise", "KeepsKey<C>::clone_from"),
    ("own.calls-allow-listed", "bmsa_fixtures"),
    ("leak.debug-opaque", "Leaky"),
    ("leak.debug-opaque", "DerivedLeak"),
    ("leak.zeroize-field", "HalfWiped.y"),
    ("leak.zeroize-field", "SometimesWiped.iv"),
    ("leak.zeroize-field", "NeverWiped.iv"),
    ("leak.zeroize-field", "CopyWiped.s"),
]


def fixtures_factbase():
    """compile /verif/fixtures with the driver; returns (FactBase restricted to the fixtures crate,
    cleanup function).  Raises FactsError."""
    import os
    import shutil
    import tempfile
    from . import facts as FX
    tmp = tempfile.mkdtemp(prefix="bmsa-fixt-")
    out = None
    try:
        src = os.path.join(FX.VERIF, "fixtures")
        dst = os.path.join(tmp, "fixtures")
        shutil.copytree(src, dst, ignore=shutil.ignore_patterns("target"))
        shutil.copy(os.path.join(FX.REPO, "Cargo.lock"), os.path.join(dst, "Cargo.lock"))
        out = FX.extract_crate_dir(dst, ["bmsa_fixtures", "cipher", "inout", "crypto_common", "hybrid_array"])
        fb = FX.FactBase("fixtures", directory=out)
        fx = fb.crates.get("bmsa_fixtures")
        if fx is None:
            raise FX.FactsError("driver produced no facts for the fixtures crate")
        fb.workspace = lambda: [fx]
    except Exception:
        shutil.rmtree(tmp, ignore_errors=True)
        if out:
            shutil.rmtree(out, ignore_errors=True)
        raise

    def cleanup():
        shutil.rmtree(tmp, ignore_errors=True)
        shutil.rmtree(out, ignore_errors=True)
    return fb, cleanup


def run_controls(rep, which):
    """compile /verif/fixtures with the same driver and require every deliberately broken specimen
    to be reported by its rule (rules whose expected count on the real tree is zero must still
    be able to fire)."""
    import os
    import shutil
    import tempfile
    from . import facts as FX
    from .report import Report
    tmp = tempfile.mkdtemp(prefix="bmsa-fixt-")
    try:
        src = os.path.join(FX.VERIF, "fixtures")
        dst = os.path.join(tmp, "fixtures")
        shutil.copytree(src, dst, ignore=shutil.ignore_patterns("target"))
        shutil.copy(os.path.join(FX.REPO, "Cargo.lock"), os.path.join(dst, "Cargo.lock"))
        out = FX.extract_crate_dir(dst, ["bmsa_fixtures", "cipher", "inout"])
        try:
            fb = FX.FactBase("fixtures", directory=out)
            fx = fb.crates.get("bmsa_fixtures")
            if fx is None:
                rep.ob("control.extract", "fixtures", False, "driver produced no facts for the fixtures crate")
                return
            fb.workspace = lambda: [fx]
            sc = Report("controls")
            check_ownership(sc, fb)
            check_statics(sc, fb)
            check_outgoing_calls(sc, fb)
            check_clone_bodies(sc, fb)
            check_debug_opaque(sc, fb)
            fx.j["features"] = ["zeroize"]
            check_zeroize(sc, fb)
            for rule, needle in CONTROLS:
                if not rule.startswith(which):
                    continue
                hits = [o for o in sc.obls if o["rule"] == rule and needle in o["instance"] and not o["ok"]]
                rep.ob("control." + rule, needle, bool(hits), "deliberately broken specimen %s is %sreported by rule %s" % (needle, "" if hits else "NOT ", rule))
        finally:
            shutil.rmtree(out, ignore_errors=True)
    except FX.FactsError as e:
        rep.ob("control.extract", "fixtures", False, str(e)[-600:])
    finally:
        shutil.rmtree(tmp, ignore_errors=True)
