"""Property registry: which rules decide which property, floors, explanations."""
from . import facts as FX
from . import blockmode as BM
from . import streammode as SM
from . import ctsmode as CM
from . import itemrules as IR
from . import cfgrules as CR
from . import bufcfb as BC
from . import misc as MI


class Env:
    def __init__(self, tier):
        self.tier = tier
        self._fb = {}

    def fb(self, config="default"):
        if config not in self._fb:
            self._fb[config] = FX.FactBase(config)
        return self._fb[config]

    def configs(self):
        return ["default", "all-features"] if self.tier == "quick" else ["default", "all-features", "no-default-features"]


def _all_configs(env, f):
    """run f(fb, tag) for every configuration of the tier; obligations of the non-default
    configurations carry the configuration in their instance name."""
    for c in env.configs():
        f(env.fb(c), "" if c == "default" else "@" + c)


def retag(rep, start, tag):
    if not tag:
        return
    for o in rep.obls[start:]:
        o["instance"] += tag
        o["key"] = "%s|%s" % (o["rule"], o["instance"])


def per_config(rep, env, fn):
    for c in env.configs():
        start = len(rep.obls)
        fn(env.fb(c))
        retag(rep, start, "" if c == "default" else "@" + c)


# ---------------------------------------------------------------- properties
def c01(rep, env):
    def f(fb):
        BM.check_roundtrip(rep, fb)
        CM.check_roundtrip(rep, fb)
        BC.check_roundtrip(rep, fb)
        MI.check_stream_involution(rep, fb)
        MI.check_length_preserving(rep, fb)
    per_config(rep, env, f)


def c02(rep, env):
    def f(fb):
        BM.check_definition(rep, fb, crates={"cbc", "pcbc", "ige"})
        BM.check_par(rep, fb, crates={"cbc", "pcbc", "ige"})
        MI.check_plumbing(rep, fb, crates={"cbc", "pcbc", "ige"})
    per_config(rep, env, f)


def c03(rep, env):
    def f(fb):
        BM.check_definition(rep, fb, crates={"cfb_mode", "cfb8", "ofb"})
        BM.check_par(rep, fb, crates={"cfb_mode", "cfb8", "ofb"})
        MI.check_plumbing(rep, fb, crates={"cfb_mode", "cfb8", "ofb"})
        MI.check_enc_only(rep, fb, crates={"cfb_mode", "cfb8", "ofb"})
        BC.check_definition(rep, fb)
    per_config(rep, env, f)


def c04(rep, env):
    def f(fb):
        SM.check_ctr_layout(rep, fb)
        SM.check_ctr_backend(rep, fb)
        SM.check_ctr_core(rep, fb)
        MI.check_plumbing(rep, fb, crates={"ctr"})
        MI.check_flavor_siblings(rep, fb)
    per_config(rep, env, f)


def c05(rep, env):
    def f(fb):
        CM.check_layout(rep, fb)
        CM.check_helpers(rep, fb)
    per_config(rep, env, f)


def c06(rep, env):
    def f(fb):
        SM.check_belt(rep, fb, parts=("def", "par", "export"))
        MI.check_plumbing(rep, fb, crates={"belt_ctr"})
        MI.check_enc_only(rep, fb, crates={"belt_ctr"})
    per_config(rep, env, f)


def c07(rep, env):
    def f(fb):
        BM.check_par(rep, fb)
        SM.check_ctr_backend(rep, fb)
        SM.check_belt(rep, fb, parts=("par",))
        CM.check_helpers(rep, fb)
        MI.check_plumbing(rep, fb)
    per_config(rep, env, f)


def c08(rep, env):
    def f(fb):
        BC.check_definition(rep, fb)
        BC.check_chunking(rep, fb)
        MI.check_stream_cores(rep, fb)
        BM.check_dependence(rep, fb, crates={"cfb_mode", "cfb8"})
    per_config(rep, env, f)


def c09(rep, env):
    def f(fb):
        BM.check_export(rep, fb)
        BM.check_roundtrip(rep, fb)
        SM.check_ctr_layout(rep, fb)
        SM.check_ctr_core(rep, fb)
        SM.check_belt(rep, fb, parts=("export",))
        BC.check_state(rep, fb)
    per_config(rep, env, f)


def c10(rep, env):
    def f(fb):
        SM.check_ctr_remaining(rep, fb)
        SM.check_ctr_core(rep, fb)
        SM.check_ctr_layout(rep, fb)
        SM.check_belt(rep, fb, parts=("pos", "def"))
    per_config(rep, env, f)


def c11(rep, env):
    def f(fb):
        SM.check_ctr_remaining(rep, fb)
        SM.check_ctr_core(rep, fb)
        SM.check_ctr_backend(rep, fb)
        SM.check_belt(rep, fb, parts=("rem", "def", "par"))
        MI.check_ofb_unbounded(rep, fb)
        CR.check_wrapper_checks(rep, fb)
    per_config(rep, env, f)


def c12(rep, env):
    def f(fb):
        BM.check_inplace(rep, fb)
        CM.check_inplace(rep, fb)
        MI.check_stream_no_old_output(rep, fb)
    per_config(rep, env, f)


def c13(rep, env):
    def f(fb):
        CM.check_layout(rep, fb)
        CM.check_b2b(rep, fb)
        MI.check_iv_sizes(rep, fb)
        MI.check_panic_sites(rep, fb)
    per_config(rep, env, f)


def c14(rep, env):
    def f(fb):
        CM.check_layout(rep, fb)
        CM.check_helpers(rep, fb)
        BC.check_definition(rep, fb)
        BC.check_init(rep, fb)
        MI.check_ofb_one_backend(rep, fb)
        MI.check_aliases(rep, fb)
        MI.check_no_own_keyinit(rep, fb)
    per_config(rep, env, f)


def c15(rep, env):
    def f(fb):
        BM.check_dependence(rep, fb)
        SM.check_ctr_backend(rep, fb)
        SM.check_belt(rep, fb, parts=("def",))
    per_config(rep, env, f)


def c16(rep, env):
    def f(fb):
        IR.check_ownership(rep, fb)
        IR.check_statics(rep, fb)
        IR.check_crate_attrs(rep, fb)
        IR.check_outgoing_calls(rep, fb)
        IR.check_clone_bodies(rep, fb)
    per_config(rep, env, f)


def c17(rep, env):
    def f(fb):
        IR.check_debug_opaque(rep, fb)
        IR.check_wrapper_debug(rep, fb)
    per_config(rep, env, f)
    IR.check_zeroize(rep, env.fb("all-features"))


REGISTRY = {
    "C01": {"run": c01, "floors": {"inv.step": 12, "inv.cts.roundtrip": 72, "inv.stream": 4}},
    "C02": {"run": c02, "floors": {"def.out": 12, "def.state": 16, "par.closed-form": 4}},
    "C03": {"run": c03, "floors": {"def.out": 14, "def.state": 14, "par.closed-form": 4, "enc-only": 6, "buf": 8}},
    "C04": {"run": c04, "floors": {"ctr.layout": 12, "ctr.ks.block": 12, "par.closed-form": 24}},
    "C05": {"run": c05, "floors": {"cts.layout": 144, "cts.gate.exact": 24}},
    "C06": {"run": c06, "floors": {"belt.init": 2, "belt.ks.block": 2, "par.closed-form": 4}},
    "C07": {"run": c07, "floors": {"par.closed-form": 40, "par.no-override": 18, "helpers": 8}},
    "C08": {"run": c08, "floors": {"buf": 8, "stream.core": 6}},
    "C09": {"run": c09, "floors": {"ivstate.export-public": 20, "ivstate.resume": 20, "ctr.resume": 12, "buf.state": 4}},
    "C10": {"run": c10, "floors": {"pos.get": 14, "pos.set": 14, "pos.counter-type": 14}},
    "C11": {"run": c11, "floors": {"rem.exact": 14, "ctr.ks.advance": 12, "wrapper.check-dominates": 4}},
    "C12": {"run": c12, "floors": {"alias.same.out": 160, "alias.no-old-output": 160}},
    "C13": {"run": c13, "floors": {"cts.gate.exact": 24, "cts.gate.no-side-effect": 24, "b2b": 8, "ivsize": 30, "panic.site-covered": 40}},
    "C14": {"run": c14, "floors": {"cts.layout": 144, "buf": 8, "ofb.one-backend": 4, "alias.wrapper": 16, "keyinit.blanket": 30}},
    "C15": {"run": c15, "floors": {"dep.kind": 48, "ctr.ks.data-independent": 12}},
    "C16": {"run": c16, "floors": {"own.fields-by-value": 60, "own.clone-fieldwise": 50, "own.no-std": 18, "own.no-unsafe": 18, "own.calls-allow-listed": 18}},
    "C17": {"run": c17, "floors": {"leak.debug-opaque": 60, "leak.alias-debug-opaque": 16, "leak.zeroize-field": 24}},
}
