"""Property registry: which rules decide which property, floors, explanations."""
from . import facts as FX
from . import blockmode as BM
from . import streammode as SM
from . import ctsmode as CM
from . import itemrules as IR
from . import cfgrules as CR
from . import bufcfb as BC
from . import misc as MI


class Env:
    def __init__(self, tier):
        self.tier = tier
        self._fb = {}

    def fb(self, config="default"):
        if config not in self._fb:
            self._fb[config] = FX.FactBase(config)
        return self._fb[config]

    def configs(self):
        return ["default", "all-features"] if self.tier == "quick" else ["default", "all-features", "no-default-features"]

    def non_additive(self):
        """function bodies of the `default` configuration that `all-features` does not subsume:
        bodies that exist only without a feature (`cfg(not(feature = ..))`) or whose MIR differs and
        is not just an empty function (the feature-less `Drop::drop`).  The quick tier interprets the
        kernels under `all-features` only when this list is empty."""
        if not hasattr(self, "_nonadd"):
            import json

            def norm(x):
                if isinstance(x, dict):
                    return {k: norm(v) for k, v in x.items() if k not in ("span", "loc", "line", "file", "ty")}
                if isinstance(x, list):
                    return [norm(v) for v in x]
                return x
            out = []
            fa, fd = self.fb("all-features"), self.fb("default")
            for cr in fd.workspace():
                ca = fa.crates.get(cr.name)
                pa = {b["path"]: b for b in ca.bodies} if ca else {}
                for b in cr.bodies:
                    a = pa.get(b["path"])
                    if a is not None and json.dumps(norm(a["blocks"]), sort_keys=True) == json.dumps(norm(b["blocks"]), sort_keys=True):
                        continue
                    calls = sum(1 for bb in b["blocks"] if bb["term"]["k"] == "call")
                    stmts = sum(len(bb["stmts"]) for bb in b["blocks"])
                    if a is not None and calls == 0 and stmts <= 1:
                        continue
                    out.append("%s::%s" % (cr.name, b["path"]))
            self._nonadd = out
        return self._nonadd


def _all_configs(env, f):
    """run f(fb, tag) for every configuration of the tier; obligations of the non-default
    configurations carry the configuration in their instance name."""
    for c in env.configs():
        f(env.fb(c), "" if c == "default" else "@" + c)


def retag(rep, start, tag):
    if not tag:
        return
    for o in rep.obls[start:]:
        o.setdefault("base_key", o["key"])
        o["instance"] += tag
        o["key"] = "%s|%s" % (o["rule"], o["instance"])


def per_config(rep, env, fn, light=False):
    """term-level (heavy) rules: `all-features` configuration in the quick tier when it subsumes the
    `default` configuration (checked on the MIR: Env.non_additive), else both; every configuration
    in the thorough tier.  Item-level (light) rules: every configuration of the tier."""
    cfgs = env.configs() if (light or env.tier == "thorough") else ["all-features"]
    if not light and env.tier == "quick" and env.non_additive():
        # code compiled only WITHOUT a feature: `all-features` is not a superset, interpret both
        cfgs = ["default", "all-features"]
    env.used = sorted(set(getattr(env, "used", [])) | set(cfgs))
    for c in cfgs:
        start = len(rep.obls)
        fn(env.fb(c))
        retag(rep, start, "" if (c == "default" or len(cfgs) == 1) else "@" + c)


# ---------------------------------------------------------------- properties
def only(rep, fn, keep):
    """run fn into a scratch report and keep the obligations whose rule satisfies `keep`
    (undecided ones are always kept: fail closed)."""
    from .report import Report
    sc = Report(rep.prop)
    fn(sc)
    for o in sc.obls:
        if o["undecided"] or keep(o):
            rep.obls.append(o)


def pre(*prefixes):
    return lambda o: any(o["rule"].startswith(p) for p in prefixes)


def c01(rep, env):
    def f(fb):
        BM.check_roundtrip(rep, fb)
        CM.check_roundtrip(rep, fb)
        BC.check_roundtrip(rep, fb)
        MI.check_stream_involution(rep, fb)
        MI.check_length_preserving(rep, fb)
        # "through every public way of driving the mode (block at a time, many blocks ...)": the
        # one-step inversion above extends to multi-block calls only if the parallel bodies agree
        # with the one-block kernels
        only(rep, lambda r: BM.check_par(r, fb), pre("par.closed-form"))
        only(rep, lambda r: SM.check_ctr_backend(r, fb), pre("par.closed-form"))
        only(rep, lambda r: SM.check_belt(r, fb, parts=("par",)), pre("par.closed-form"))
        only(rep, lambda r: CM.check_helpers(r, fb), pre("helpers.one-block", "helpers.par-group"))
        MI.check_overrides(rep, fb)
        MI.check_plumbing(rep, fb)
        MI.check_exports(rep, fb)
        # decrypting by rewinding the same object: the counter state must start at block 0 and seek exactly
        only(rep, lambda r: SM.check_ctr_layout(r, fb), pre("ctr.from-nonce.zero", "ctr.resume"))
        only(rep, lambda r: SM.check_ctr_remaining(r, fb), pre("pos."))
        # decrypting in instalments, the state exported after one and imported before the next: the
        # import must restore exactly the exported state
        only(rep, lambda r: BM.check_export(r, fb), pre("ivstate.resume"))
        only(rep, lambda r: SM.check_belt(r, fb, parts=("export",)), pre("ivstate.resume"))
        BC.check_state(rep, fb)
        # the one-step inversion is established on the buffer-to-buffer form of the kernels; in-place
        # driving inverts too only if it writes the same bytes and leaves the same chaining state
        only(rep, lambda r: BM.check_inplace(r, fb), pre("alias.same"))
    per_config(rep, env, f)


def c02(rep, env):
    def f(fb):
        BM.check_definition(rep, fb, crates={"cbc", "pcbc", "ige"})
        BM.check_par(rep, fb, crates={"cbc", "pcbc", "ige"})
        MI.check_plumbing(rep, fb, crates={"cbc", "pcbc", "ige"})
        MI.check_overrides(rep, fb)
        MI.check_exports(rep, fb)
        # the definition must hold for both ways of passing buffers: the in-place summary equals the
        # buffer-to-buffer summary that was compared with the recurrence above
        only(rep, lambda r: BM.check_inplace(r, fb, crates={"cbc", "pcbc", "ige"}), pre("alias.same", "alias.no-old-output"))
        # a clone must carry on the same recurrence (chaining value copied field by field)
        IR.check_clone_bodies(rep, fb, crates={"cbc", "pcbc", "ige"})
    per_config(rep, env, f)
    BM.run_term_controls(rep, ["def."])


def c03(rep, env):
    def f(fb):
        BM.check_definition(rep, fb, crates={"cfb_mode", "cfb8", "ofb"})
        BM.check_par(rep, fb, crates={"cfb_mode", "cfb8", "ofb"})
        MI.check_plumbing(rep, fb, crates={"cfb_mode", "cfb8", "ofb"})
        MI.check_enc_only(rep, fb, crates={"cfb_mode", "cfb8", "ofb"})
        MI.check_overrides(rep, fb)
        MI.check_exports(rep, fb)
        BC.check_definition(rep, fb)
        BC.check_state(rep, fb)      # "any chunking of the calls" includes resuming from an exported (block, position)
        BC.check_init(rep, fb)
        only(rep, lambda r: BM.check_inplace(r, fb, crates={"cfb_mode", "cfb8", "ofb"}), pre("alias.same", "alias.no-old-output"))
        IR.check_clone_bodies(rep, fb, crates={"cfb_mode", "cfb8", "ofb"})
        # "message of any byte length" through the Ofb stream cipher: the wrapper refuses a call
        # longer than remaining_blocks(), so OFB must report no bound
        MI.check_ofb_unbounded(rep, fb)
    per_config(rep, env, f)


def c04(rep, env):
    def f(fb):
        SM.check_ctr_layout(rep, fb)
        SM.check_ctr_backend(rep, fb)
        only(rep, lambda r: SM.check_ctr_core(r, fb), pre("ctr.core"))
        MI.check_plumbing(rep, fb, crates={"ctr"})
        MI.check_enc_only(rep, fb, crates={"ctr"})
        IR.check_clone_bodies(rep, fb, crates={"ctr"})
        SM.check_ctr_aliases(rep, fb)
        MI.check_overrides(rep, fb)
        MI.check_exports(rep, fb)
        # "block index i" is also reached by seeking: the position setter/getter of each flavour
        only(rep, lambda r: SM.check_ctr_remaining(r, fb), pre("pos."))
        only(rep, lambda r: SM.check_ctr_core(r, fb), pre("pos."))
    per_config(rep, env, f)


def c05(rep, env):
    def f(fb):
        CM.check_layout(rep, fb)
        CM.check_helpers(rep, fb)
        CM.check_constructors(rep, fb)
        MI.check_overrides(rep, fb)
        MI.check_exports(rep, fb)      # the public names CbcCs1.. must denote the variants analysed under those names
    per_config(rep, env, f)


def c06(rep, env):
    def f(fb):
        # rem.exact belongs here too: a wrong remaining-blocks report makes the byte-level API refuse
        # keystream blocks E(s0+i) that the definition (sums mod 2^128) requires it to produce
        # pos.*: the property quantifies over the start offset, i.e. block E(s0 + p + i) after a seek to block p
        only(rep, lambda r: SM.check_belt(r, fb, parts=("def", "par", "rem", "pos")), pre("belt.", "par.", "rem.exact", "pos."))
        MI.check_plumbing(rep, fb, crates={"belt_ctr"})
        MI.check_enc_only(rep, fb, crates={"belt_ctr"})
        MI.check_overrides(rep, fb)
        MI.check_exports(rep, fb)
    per_config(rep, env, f)


def c07(rep, env):
    def f(fb):
        BM.check_par(rep, fb)
        only(rep, lambda r: SM.check_ctr_backend(r, fb), pre("par."))
        only(rep, lambda r: SM.check_belt(r, fb, parts=("par",)), pre("par."))
        CM.check_helpers(rep, fb)
        MI.check_plumbing(rep, fb)
        MI.check_overrides(rep, fb)
    per_config(rep, env, f)
    BM.run_term_controls(rep, ["par."])


def c08(rep, env):
    def f(fb):
        BC.check_definition(rep, fb)
        BC.check_chunking(rep, fb)
        BC.check_chunking_long(rep, fb)
        BM.check_definition(rep, fb, crates={"ofb"})
        # how a byte string is cut decides which blocks go through the parallel body: it must agree
        # with the one-block kernel
        only(rep, lambda r: SM.check_ctr_backend(r, fb), pre("ctr.ks.advance", "ctr.ks.data-independent", "ctr.ks.block", "par.closed-form"))
        only(rep, lambda r: SM.check_belt(r, fb, parts=("def", "par")), pre("belt.ks.", "par.closed-form"))
        MI.check_stream_involution(rep, fb)
        MI.check_aliases(rep, fb)
        MI.check_overrides(rep, fb)
        MI.check_plumbing(rep, fb)
        BM.check_dependence(rep, fb, crates={"cfb_mode", "cfb8"})
        # the byte-level decrypt of CFB / CFB-8 (AsyncStreamCipher) hands whole groups of blocks to the
        # parallel body and the rest to the one-block kernel: where a call is cut decides which
        only(rep, lambda r: BM.check_par(r, fb, crates={"cfb_mode", "cfb8", "ofb"}), pre("par."))
    per_config(rep, env, f)


def c09(rep, env):
    def f(fb):
        BM.check_export(rep, fb)
        only(rep, lambda r: BM.check_roundtrip(r, fb), pre("inv.step.state"))
        only(rep, lambda r: SM.check_ctr_layout(r, fb), pre("ctr.resume", "ctr.from-nonce", "ctr.layout"))
        only(rep, lambda r: SM.check_ctr_core(r, fb), pre("ctr.core"))
        only(rep, lambda r: SM.check_belt(r, fb, parts=("export",)), pre("ivstate."))
        BC.check_state(rep, fb)
        # "the exported (block, position) pair resumes correctly at any byte position": the pair
        # left behind by every call must be the one the definition prescribes (also for an empty call)
        only(rep, lambda r: BC.check_definition(r, fb), pre("buf.def", "buf.paths"))
        # a resumed run partitions the blocks into calls differently from the uninterrupted one:
        # "continues exactly" needs the parallel bodies to agree with the one-block kernels
        only(rep, lambda r: BM.check_par(r, fb), pre("par.closed-form"))
        only(rep, lambda r: SM.check_ctr_backend(r, fb), pre("par.closed-form", "ctr.ks.advance"))
        only(rep, lambda r: SM.check_belt(r, fb, parts=("par", "def")), pre("par.closed-form", "belt.ks.advance"))
        MI.check_overrides(rep, fb)
        MI.check_plumbing(rep, fb)     # the state must survive between calls (nothing but the kernels writes it)
        # the state rules above are evaluated on the buffer-to-buffer form of the kernels; the state
        # exported after IN-PLACE processing is the same only if both forms leave the same state
        only(rep, lambda r: BM.check_inplace(r, fb), pre("alias.same.state"))
    per_config(rep, env, f)


def c10(rep, env):
    def f(fb):
        # "positions anywhere in [0, keystream end)": the end of the keystream (remaining blocks)
        # must stay where the block counter has not wrapped, else the position is misreported
        only(rep, lambda r: SM.check_ctr_remaining(r, fb), pre("pos.", "rem."))
        only(rep, lambda r: SM.check_ctr_core(r, fb), pre("pos.", "rem."))
        only(rep, lambda r: SM.check_ctr_layout(r, fb), pre("ctr.next.advance", "ctr.next.nonce-kept"))
        # the bytes after seek(p) come partly from the one-block kernel (inside a block, tails) and
        # partly from the parallel body: they are "bytes p.. of the keystream" only if the two agree
        only(rep, lambda r: SM.check_ctr_backend(r, fb), pre("ctr.ks.advance", "ctr.ks.block", "par.closed-form"))
        only(rep, lambda r: SM.check_belt(r, fb, parts=("pos", "def", "par", "rem")), pre("pos.", "rem.", "belt.ks.advance", "belt.ks.block", "par.closed-form"))
        # a clone must report (and seek relative to) the same position as the original
        IR.check_clone_bodies(rep, fb, crates={"ctr", "belt_ctr"})
        SM.check_ctr_aliases(rep, fb)
        MI.check_overrides(rep, fb)
    per_config(rep, env, f)


def c11(rep, env):
    def f(fb):
        # `remaining` is expressed over the flavour's block counter: it means "blocks still available"
        # only if that counter starts at 0 (from_nonce), follows seeks (set_from_backend) and advances
        # by one per block
        only(rep, lambda r: SM.check_ctr_remaining(r, fb), pre("rem.", "pos.get", "pos.set"))
        only(rep, lambda r: SM.check_ctr_core(r, fb), pre("rem."))
        only(rep, lambda r: SM.check_ctr_layout(r, fb), pre("ctr.next.advance", "ctr.from-nonce"))
        # "no counter value is used for two different positions": every position can be reached through
        # the one-block kernel, which uses 2^w - 1 of the 2^w counter values, so a parallel body that
        # numbers its blocks differently from the one-block kernel hands some counter out twice
        only(rep, lambda r: SM.check_ctr_backend(r, fb), pre("ctr.ks.advance", "par.closed-form.state", "par.n-fold"))
        only(rep, lambda r: SM.check_belt(r, fb, parts=("rem", "def", "par")), pre("rem.", "belt.ks.advance", "par.closed-form.state", "par.n-fold"))
        MI.check_ofb_unbounded(rep, fb)
        CR.check_wrapper_checks(rep, fb)
        # a clone that forgets how many blocks were used would wrap silently
        IR.check_clone_bodies(rep, fb, crates={"ctr", "belt_ctr"})
        SM.check_ctr_aliases(rep, fb)
        MI.check_overrides(rep, fb)
    per_config(rep, env, f)


def c12(rep, env):
    def f(fb):
        BM.check_inplace(rep, fb)
        CM.check_inplace(rep, fb)
        MI.check_stream_involution(rep, fb)
        MI.check_overrides(rep, fb)
        MI.check_plumbing(rep, fb)
        only(rep, lambda r: CM.check_helpers(r, fb), pre("helpers.par-group.inplace"))
    per_config(rep, env, f)
    BM.run_term_controls(rep, ["alias."])


def c13(rep, env):
    def f(fb):
        only(rep, lambda r: CM.check_layout(r, fb), lambda o: ".gate." in o["rule"] or o["rule"].endswith("no-panic") or o["rule"].endswith("case-covered"))
        CM.check_b2b(rep, fb)
        CM.check_wrappers(rep, fb)
        # an inexact remaining-blocks report makes the byte-level API fail (or the panicking
        # variant panic) without any contract violation
        only(rep, lambda r: SM.check_ctr_remaining(r, fb), pre("rem.", "pos.get", "pos.set"))
        only(rep, lambda r: SM.check_ctr_core(r, fb), pre("rem."))
        only(rep, lambda r: SM.check_ctr_layout(r, fb), pre("ctr.next.advance", "ctr.from-nonce"))
        only(rep, lambda r: SM.check_belt(r, fb, parts=("rem",)), pre("rem."))
        MI.check_overrides(rep, fb)
        MI.check_iv_sizes(rep, fb)
        MI.check_panic_sites(rep, fb)
    per_config(rep, env, f)


def c14(rep, env):
    def f(fb):
        # whole number of blocks: CS1 = CS2 = plain CBC / raw ECB, CS3 = last two exchanged, one block = plain
        only(rep, lambda r: CM.check_layout(r, fb), lambda o: o["rule"] == "cts.layout" and o["instance"].endswith("d=0"))
        only(rep, lambda r: CM.check_helpers(r, fb), pre("helpers.one-block", "helpers.par-group"))
        CM.check_constructors(rep, fb)
        BC.check_definition(rep, fb)
        BC.check_init(rep, fb)
        # a buffered instance rebuilt from its exported (block, position) must stay the same front-end
        BC.check_state(rep, fb)
        MI.check_ofb_one_backend(rep, fb)
        MI.check_aliases(rep, fb)
        SM.check_ctr_aliases(rep, fb)
        MI.check_no_own_keyinit(rep, fb)
        MI.check_overrides(rep, fb)
        MI.check_exports(rep, fb)
        MI.check_plumbing(rep, fb)
        # "a core driven block-wise equals the byte-level cipher": the wrapper mixes single-block and
        # parallel calls, so the parallel bodies must agree with the one-block kernels
        only(rep, lambda r: SM.check_ctr_backend(r, fb), pre("par.closed-form", "ctr.ks.block", "ctr.ks.advance"))
        only(rep, lambda r: SM.check_belt(r, fb, parts=("par", "def")), pre("par.closed-form", "belt.ks.block", "belt.ks.advance"))
        only(rep, lambda r: BM.check_par(r, fb, crates={"ofb", "cfb_mode"}), pre("par."))
        only(rep, lambda r: BM.check_inplace(r, fb, crates={"ofb", "cfb_mode"}), pre("alias.same"))
    per_config(rep, env, f)


def c15(rep, env):
    def f(fb):
        BM.check_dependence(rep, fb)
        # the propagation pattern over a multi-block call is that of the iterated one-block kernel
        only(rep, lambda r: BM.check_par(r, fb), pre("par.closed-form"))
        # the dependence pattern is established on the buffer-to-buffer summary: it holds for in-place
        # calls iff the in-place summary is the same function
        only(rep, lambda r: BM.check_inplace(r, fb), pre("alias.same", "alias.no-old-output"))
        # and the buffered CFB decryptor has the propagation pattern of CFB iff it is the CFB stream function
        only(rep, lambda r: BC.check_definition(r, fb), lambda o: o["rule"].startswith("buf.") and "Decryptor" in o["instance"])
        MI.check_overrides(rep, fb)
        MI.check_plumbing(rep, fb)
        only(rep, lambda r: SM.check_ctr_backend(r, fb), pre("ctr.ks.data-independent", "ctr.ks.block"))
        only(rep, lambda r: SM.check_belt(r, fb, parts=("def",)), pre("belt.ks.data-independent", "belt.ks.block"))
    per_config(rep, env, f)


def c16(rep, env):
    def f(fb):
        IR.check_ownership(rep, fb)
        IR.check_statics(rep, fb)
        IR.check_crate_attrs(rep, fb)
        IR.check_outgoing_calls(rep, fb)
        IR.check_clone_bodies(rep, fb)
    per_config(rep, env, f, light=True)

    def g(fb):
        # determinism: what a kernel writes and keeps is a function of (key, state, input) only —
        # never of whatever the output buffer held before the call
        MI.check_stream_involution(rep, fb)
        only(rep, lambda r: BM.check_inplace(r, fb), pre("alias.no-old-output"))
    per_config(rep, env, g)
    MI.check_cfg_coverage(rep, env.fb("default"))
    IR.run_controls(rep, "own.")


def c17(rep, env):
    def f(fb):
        IR.check_debug_opaque(rep, fb)
        IR.check_wrapper_debug(rep, fb)
    per_config(rep, env, f, light=True)
    IR.check_zeroize(rep, env.fb("all-features"))
    MI.check_cfg_coverage(rep, env.fb("default"))
    IR.run_controls(rep, "leak.")


PROOF_NOTE = ("Static decision over the generic MIR of /repo's current tree: kernels are summarised by abstract interpretation in a free term "
              "domain (E, D, xor, byte slices, wrapping integers) with symbolic block size, width and lengths; each obligation is an equality of "
              "normal forms or an entailment of linear facts, so one verdict covers every cipher, block size, width, key, IV and message.")

REGISTRY = {
    "C01": {"run": c01, "level": "proof", "floors": {"alias.same.out": 12, "alias.same.state": 16, "inv.step.out": 6, "inv.cts.roundtrip": 36, "inv.buf.out": 2, "inv.stream": 5}},
    "C02": {"run": c02, "level": "proof", "floors": {"def.out": 6, "def.state": 8, "par.closed-form": 2, "plumb.state-borrowed": 6, "control.def": 5}},
    "C03": {"run": c03, "level": "proof", "floors": {"def.out": 7, "def.state": 7, "par.closed-form": 2, "enc-only.kernel": 8, "buf.def": 12, "rem.ofb-unbounded": 1}},
    "C04": {"run": c04, "level": "proof", "floors": {"ctr.layout": 6, "ctr.ks.block": 6, "par.closed-form": 12, "ctr.resume": 6, "ctr.alias": 6}},
    "C05": {"run": c05, "level": "proof", "floors": {"cts.layout": 72, "cts.gate.exact": 12, "helpers.one-block": 4, "cts.init": 6}},
    "C06": {"run": c06, "level": "proof", "floors": {"belt.init": 1, "belt.ks.block": 1, "par.closed-form": 2}},
    "C07": {"run": c07, "level": "proof", "floors": {"par.no-override": 11, "par.closed-form": 18, "par.n-fold": 14, "helpers.par-group": 7, "control.par": 4}},
    "C08": {"run": c08, "level": "proof", "floors": {"buf.def": 12, "buf.chunk": 14, "def.out": 3, "ctr.ks.block": 6, "belt.ks.block": 1, "alias.wrapper": 8}},
    "C09": {"run": c09, "level": "proof", "floors": {"alias.same.state": 16, "ivstate.export-public": 12, "ivstate.resume": 14, "ctr.resume": 6, "buf.state": 4}},
    "C10": {"run": c10, "level": "proof", "floors": {"pos.get": 7, "pos.set": 7, "pos.counter-type": 7, "pos.core": 12}},
    "C11": {"run": c11, "level": "other", "floors": {"par.n-fold": 14, "rem.exact": 7, "ctr.ks.advance": 6, "belt.ks.advance": 1, "wrapper.check-dominates": 3, "rem.ofb-unbounded": 1}},
    "C12": {"run": c12, "level": "proof", "floors": {"alias.same.out": 70, "alias.no-old-output": 70, "control.alias": 4}},
    "C13": {"run": c13, "level": "proof", "floors": {"cts.no-panic": 72, "cts.gate.exact": 12, "cts.gate.no-side-effect": 12, "b2b": 80, "ivsize": 18, "panic.site-covered": 30}},
    "C14": {"run": c14, "level": "proof", "floors": {"cts.layout": 36, "buf.def": 12, "buf.init": 2, "ofb.one-backend": 1, "ofb.same-function": 2, "alias.wrapper": 8, "keyinit.blanket": 18}},
    "C15": {"run": c15, "level": "proof", "floors": {"dep.kind": 24, "ctr.ks.data-independent": 6}},
    "C16": {"run": c16, "level": "proof", "floors": {"own.fields-by-value": 50, "own.clone-fieldwise": 46, "own.no-std": 18, "own.no-unsafe": 18, "own.calls-allow-listed": 18, "control.own": 6, "inv.stream": 5, "alias.no-old-output": 15}},
    "C17": {"run": c17, "level": "other", "floors": {"leak.debug-opaque": 54, "leak.alias-debug-opaque": 16, "leak.zeroize-field": 20, "control.leak": 5}},
}
for _k, _v in REGISTRY.items():
    _v.setdefault("explanation", PROOF_NOTE)
    # 31 source files on the pinned tree; files may be merged by a refactor
    _v["floors"].setdefault("cfg.analysed", 20)
