"""Dominance / who-may-call rules on the CFG of the byte-level wrapper in `cipher` (C11 iii)."""
from . import cfg as G
from .report import loc_of

CONSUMERS = ("apply_keystream_blocks_inout", "apply_keystream_blocks", "write_keystream_block", "write_keystream_blocks", "process_with_backend", "apply_keystream_partial")
CHECK = "check_remaining"


def wrapper_methods(fb):
    cip = fb.crates["cipher"]
    for im in cip.impls:
        if im.get("self_adt", "").endswith("StreamCipherCoreWrapper") and im.get("trait_name") in ("StreamCipher", "StreamCipherSeek"):
            for b in cip.bodies_of_impl(im):
                yield cip, im, b


def check_wrapper_checks(rep, fb):
    """every call that consumes keystream from the core inside a byte-level entry point of
    StreamCipherCoreWrapper is dominated by a call to check_remaining (which consults
    StreamCipherCore::remaining_blocks)."""
    cip = fb.crates["cipher"]
    n = 0
    for cip, im, b in wrapper_methods(fb):
        dom = G.dominators(b)
        checks = [i for i, t, fn in G.calls(b) if fn["name"] == CHECK]
        for i, t, fn in G.calls(b):
            if fn["name"] in CONSUMERS and fn.get("trait", "").endswith("StreamCipherCore"):
                n += 1
                ok = any(c in dom[i] and c != i for c in checks)
                inst = "cipher::StreamCipherCoreWrapper::%s:%s" % (b["name"], fn["name"])
                rep.ob("wrapper.check-dominates", inst, ok, "keystream-consuming call %s in %s is %sdominated by check_remaining" % (fn["name"], b["name"], "" if ok else "NOT "), loc_of(b))
    # check_remaining itself must consult the core's remaining_blocks and return Err on shortage
    for b in cip.bodies:
        if b["name"] == CHECK and "StreamCipherCoreWrapper" in b.get("impl_self", ""):
            calls = [fn["name"] for i, t, fn in G.calls(b)]
            rep.ob("wrapper.check-consults-core", "cipher::StreamCipherCoreWrapper::check_remaining", "remaining_blocks" in calls, "check_remaining calls StreamCipherCore::remaining_blocks", loc_of(b))
    if n == 0:
        rep.ob("wrapper.check-dominates", "cipher::StreamCipherCoreWrapper", False, "no keystream-consuming call found in the wrapper's entry points (anchor disappeared)")
