"""Analyses of the block-mode backends (cbc, pcbc, ige, cfb, cfb8, ofb): kernel summary vs
the mode definition, parallel body vs closed-form n-fold, export/resume, in-place vs
buffer-to-buffer, data dependence."""
from .lin import Lin, lin, ZERO, ONE
from . import terms as T
from .terms import Undecided
from . import specs as S
from .modes import (Backend, discover_backends, owner_of, kernel_summary, state_env, subst_value,
                    values_equal, dep_kind, show_value)
from .kernels import BS, NPAR, base_ctx, base_facts
from .report import loc_of

_cache = {}


class BM:
    """everything computed for one backend impl."""

    def __init__(self, fb, be):
        self.fb = fb
        self.be = be
        self.err = {}
        self.F = base_facts()
        self.owner = None
        self.fmap = None
        self.one = self.one_alias = None
        self.par = self.par_alias = None
        self.init = None
        self.export = None
        self._run("owner", self._owner)
        self._run("one", self._one)
        if be.par is not None:
            self._run("par", self._par)
        if self.owner is not None:
            if self.owner.init is not None:
                self._run("init", self._init)
            if self.owner.export is not None:
                self._run("export", self._export)

    def _run(self, what, f):
        try:
            f()
        except Undecided as e:
            self.err[what] = str(e)
        except (KeyError, IndexError, TypeError, ValueError, AssertionError) as e:
            self.err[what] = "internal: %s: %s" % (type(e).__name__, e)

    def _owner(self):
        self.owner, self.fmap = owner_of(self.fb, self.be)
        if self.owner is None:
            raise Undecided("no owner type hands out backend %s" % self.be.adt)

    def _one(self):
        self.one = kernel_summary(self.fb, self.be, self.be.one, alias=False)
        self.one_alias = kernel_summary(self.fb, self.be, self.be.one, alias=True)

    def _par(self):
        self.par = kernel_summary(self.fb, self.be, self.be.par, alias=False, in_name="pin")
        self.par_alias = kernel_summary(self.fb, self.be, self.be.par, alias=True, in_name="pin")

    def _init(self):
        self.init, self.init_path = self.owner.init_fields(self.fb)

    def _export(self):
        self.export, self.export_path = self.owner.export_term(self.fb)

    # ---- derived
    def state_fields(self):
        """backend state leaves (dotted paths) of the fields mapped to owner fields; a field that
        borrows a whole state struct contributes one leaf per byte-array member."""
        from .modes import flatten_value
        out = []
        for f, o in (self.fmap or {}).items():
            if o.startswith("<"):
                continue
            iv = (self.init or {}).get(o.split(".")[0])
            sub = iv
            for part in o.split(".")[1:]:
                sub = sub[2].get(part) if sub is not None and sub[0] == "struct" else None
            if sub is not None and sub[0] == "struct":
                out.extend(f + "." + leaf for leaf in flatten_value(sub))
            else:
                out.append(f)
        return out

    def owner_path(self, leaf):
        """owner-side dotted path of a backend state leaf."""
        parts = leaf.split(".")
        for n in range(len(parts), 0, -1):
            # longest mapped prefix: a by-value wrapper around the borrowed state maps `reg.0`
            pre_ = ".".join(parts[:n])
            if pre_ in self.fmap:
                rest = ".".join(parts[n:])
                return self.fmap[pre_] + ("." + rest if rest else "")
        raise Undecided("backend state leaf %s is not mapped to an owner field" % leaf)

    def init_leaf(self, leaf):
        v = None
        cur = self.init
        parts = self.owner_path(leaf).split(".")
        v = cur.get(parts[0])
        for part in parts[1:]:
            v = v[2].get(part) if v is not None and v[0] == "struct" else None
        return v

    def R(self, W):
        """representation of public chaining value W: {backend state leaf: BStr}."""
        out = {}
        for bf in self.state_fields():
            v = self.init_leaf(bf)
            if v is None or v[0] != "bytes":
                raise Undecided("owner field %s is not initialised to bytes by inner_iv_init" % self.owner_path(bf))
            out[bf] = T.bsubst(v[1], {"IV": W}, None, self.F)
        return out

    def iv_len(self):
        return T.VARLEN_OF(self) if False else None


def analyse(fb, be):
    key = (id(fb), be.cr.name, be.adt, be.trait)
    if key not in _cache:
        _cache[key] = BM(fb, be)
    return _cache[key]


def block_backends(fb, crates=None):
    return [b for b in discover_backends(fb) if b.cr.name in S.BLOCK_MODES and (crates is None or b.cr.name in crates)]


def iv_length(fb, bm):
    """length of the public chaining value = length of IV argument of inner_iv_init."""
    # the IV var was declared by the harness when inner_iv_init ran
    return T.VARLEN.get("IV")


# ---------------------------------------------------------------- rules
def check_definition(rep, fb, crates=None, rule_prefix="def"):
    """kernel summaries == mode definition (out and next chaining value), derived relation R."""
    for be in block_backends(fb, crates):
        bm = analyse(fb, be)
        inst = be.name()
        loc = loc_of(be.one)
        if any(k in bm.err for k in ("owner", "one", "init")):
            rep.undecided(rule_prefix + ".kernel", inst, "; ".join("%s: %s" % kv for kv in bm.err.items()), loc)
            continue
        if bm.init is None:
            rep.undecided(rule_prefix + ".kernel", inst, "owner has no InnerIvInit", loc)
            continue
        F = bm.F
        try:
            out, state, path = bm.one
            # chaining value W has the length of the IV
            bm.owner.init_fields(fb)   # re-declares IV var length
            wlen = T.VARLEN["IV"]
            T.declare_var("W", wlen)
            W = T.bvar("W")
            R = bm.R(W)
            env = {"self." + f: t for f, t in R.items()}
            spec = S.BLOCK_MODES[be.cr.name]
            # re-declare 'in' with the kernel's block length
            inlen = T.blen(out[1]) if be.dir != "ks" else None
            if be.dir != "ks":
                T.declare_var("in", inlen)
                s_out, s_W = spec(be.dir, T.bvar("in"), W, F)
            else:
                s_out, s_W = spec("ks", None, W, F)
            got = T.bsubst(out[1], env, None, F)
            rep.ob(rule_prefix + ".out", inst, T.bequal(got, s_out, F), "output block", loc,
                   computed=T.bshow(got), expected=T.bshow(s_out))
            R2 = bm.R(s_W)
            for f in bm.state_fields():
                if f not in state:
                    rep.ob(rule_prefix + ".state", inst + "." + f, False, "state field not found in summary", loc)
                    continue
                g = T.bsubst(state[f][1], env, None, F)
                rep.ob(rule_prefix + ".state", inst + "." + f, T.bequal(g, R2[f], F), "next chaining state", loc,
                       computed=T.bshow(g), expected=T.bshow(R2[f]))
            bad = [o for o in path["oblig"] if not o["ok"]]
            rep.ob(rule_prefix + ".no-panic", inst, not bad, "; ".join("%s %s" % (o["kind"], o["detail"]) for o in bad[:3]) or "%d panic obligations discharged" % len(path["oblig"]), loc)
            if be.par is not None and "par" not in bm.err:
                badp = [o for o in bm.par[2]["oblig"] if not o["ok"]]
                rep.ob(rule_prefix + ".no-panic", inst + ".par", not badp, "; ".join("%s %s" % (o["kind"], o["detail"]) for o in badp[:3]) or "%d panic obligations discharged" % len(bm.par[2]["oblig"]), loc_of(be.par))
        except Undecided as e:
            rep.undecided(rule_prefix + ".kernel", inst, str(e), loc)


def closed_form_par(bm, F):
    """expected (out, {field: final}) of the par method from the one-block summary, symbolic width n."""
    be = bm.be
    out1, st1, _ = bm.one
    fields = bm.state_fields()
    elen = T.blen(out1[1]) if out1 is not None else None
    n = NPAR
    T.declare_var("pin", n * elen)
    # does the next state depend on the state?
    dep = False
    for f in fields:
        for f2 in fields:
            if ("self." + f2) in T.bvars(st1[f][1]):
                dep = True
    if dep:
        raise Undecided("next chaining state depends on the chaining state: no closed-form n-fold; a parallel body is not justified")
    j = T.fresh("$cj")
    v = Lin.sym(j)
    Fj = F.copy()
    Fj.add_ge(v)
    Fj.add_ge(n - 1 - v)
    cur = T.bslice(T.bvar("pin"), v * elen, elen, Fj)
    prev = T.bslice(T.bvar("pin"), (v - 1) * elen, elen, Fj)
    env = {"in": cur}
    for f in fields:
        s_prev = T.bsubst(st1[f][1], {"in": prev}, None, Fj)
        env["self." + f] = T.bnorm((("i", ("eq", v), T.blen(s_prev), T.bvar("self." + f), s_prev),), Fj)
    tmpl = T.bsubst(out1[1], env, None, Fj)
    exp_out = T.bnorm((("m", j, ZERO, n, elen, tmpl),), F)
    last = T.bslice(T.bvar("pin"), (n - 1) * elen, elen, F)
    exp_state = {f: T.bsubst(st1[f][1], {"in": last}, None, F) for f in fields}
    return exp_out, exp_state


def check_par(rep, fb, crates=None, rule_prefix="par"):
    """C07 (ii): every overridden parallel body == closed form of the n-fold one-block kernel."""
    for be in discover_backends(fb):
        if crates is not None and be.cr.name not in crates:
            continue
        inst = be.name()
        if be.tail is not None:
            rep.undecided(rule_prefix + ".tail-override", inst, "tail method overridden; no rule built for it", loc_of(be.tail))
        if be.par is None:
            rep.ob(rule_prefix + ".no-override", inst, True, "provided par/tail methods (loops over the one-block kernel) are used; batching independent by T2", loc_of(be.one))
            continue
        if be.cr.name not in S.BLOCK_MODES:
            continue   # ctr / belt handled in streammode
        bm = analyse(fb, be)
        loc = loc_of(be.par)
        if any(k in bm.err for k in ("owner", "one", "par")):
            rep.undecided(rule_prefix + ".closed-form", inst, "; ".join("%s: %s" % kv for kv in bm.err.items()), loc)
            continue
        try:
            F = bm.F
            exp_out, exp_state = closed_form_par(bm, F)
            pout, pstate, _ = bm.par
            rep.ob(rule_prefix + ".closed-form.out", inst, T.bequal(pout[1], exp_out, F), "parallel body vs n-fold of one-block kernel (n symbolic)", loc,
                   computed=T.bshow(pout[1]), expected=T.bshow(exp_out))
            for f in bm.state_fields():
                rep.ob(rule_prefix + ".closed-form.state", inst + "." + f, T.bequal(pstate[f][1], exp_state[f], F), "final chaining state of parallel body", loc,
                       computed=T.bshow(pstate[f][1]), expected=T.bshow(exp_state[f]))
        except Undecided as e:
            rep.undecided(rule_prefix + ".closed-form", inst, str(e), loc)


def check_inplace(rep, fb, crates=None, rule_prefix="alias"):
    """C12: summary with distinct in/out buffers == summary with in == out; no dependence on old output."""
    for be in block_backends(fb, crates):
        bm = analyse(fb, be)
        for which, b2b, ali, body in (("one", bm.one, bm.one_alias, be.one), ("par", bm.par, bm.par_alias, be.par)):
            if body is None:
                continue
            inst = be.name() + "." + which
            loc = loc_of(body)
            if which in bm.err or "owner" in bm.err:
                rep.undecided(rule_prefix + ".same", inst, bm.err.get(which) or bm.err.get("owner"), loc)
                continue
            if be.dir == "ks":
                # writes keystream into &mut Block: output must not depend on the old block contents
                o = b2b[0]
                rep.ob(rule_prefix + ".no-old-output", inst, "out_old" not in T.bvars(o[1]), "keystream block independent of previous buffer contents", loc, computed=T.bshow(o[1]))
                continue
            F = bm.F
            o1, s1, _ = b2b
            o2, s2, _ = ali
            iname = "in" if which == "one" else "pin"
            rep.ob(rule_prefix + ".no-old-output", inst, "out_old" not in T.bvars(o1[1]) and all("out_old" not in T.bvars(v[1]) for v in s1.values() if v[0] == "bytes"),
                   "output and state independent of previous output-buffer contents", loc, computed=T.bshow(o1[1]))
            rep.ob(rule_prefix + ".same.out", inst, T.bequal(o1[1], o2[1], F), "in-place output == buffer-to-buffer output", loc,
                   computed=T.bshow(o2[1]), expected=T.bshow(o1[1]))
            for f in bm.state_fields():
                if f in s1 and f in s2:
                    rep.ob(rule_prefix + ".same.state", inst + "." + f, T.bequal(s1[f][1], s2[f][1], F), "chaining state identical in both forms", loc,
                           computed=T.bshow(s2[f][1]), expected=T.bshow(s1[f][1]))
            # the input buffer is not modified in the buffer-to-buffer form
            pin = b2b[2]["cells"].get("in")
            if pin is not None:
                rep.ob(rule_prefix + ".input-kept", inst, T.bequal(pin[1], T.bvar(iname, ZERO, T.blen(pin[1])), F), "input buffer unchanged in buffer-to-buffer form", loc, computed=T.bshow(pin[1]))


def check_export(rep, fb, crates=None, rule_prefix="ivstate"):
    """C09: export(R(W)) == W ; init(export(st)) == st ; enc/dec report equal states."""
    seen = set()
    for be in block_backends(fb, crates):
        bm = analyse(fb, be)
        if bm.owner is None:
            continue
        key = (be.cr.name, bm.owner.adt)
        if key in seen:
            continue
        seen.add(key)
        inst = "%s::%s" % key
        if bm.owner.export is None:
            rep.ob(rule_prefix + ".absent", inst, True, "type does not implement IvState", loc_of(bm.owner.with_backend))
            continue
        loc = loc_of(bm.owner.export)
        if any(k in bm.err for k in ("init", "export", "owner")):
            rep.undecided(rule_prefix + ".export", inst, "; ".join("%s: %s" % kv for kv in bm.err.items()), loc)
            continue
        try:
            F = bm.F
            bm.owner.init_fields(fb)
            wlen = T.VARLEN["IV"]
            T.declare_var("W", wlen)
            W = T.bvar("W")
            from .modes import flatten_value
            flat_init = {}
            for of, v in bm.init.items():
                if v[0] == "bytes":
                    flat_init[of] = v
                elif v[0] == "struct":
                    for leaf, lv in flatten_value(v).items():
                        if lv[0] == "bytes":
                            flat_init[of + "." + leaf] = lv
            env = {}
            for of, v in flat_init.items():
                env["self." + of] = T.bsubst(v[1], {"IV": W}, None, F)
            ex = bm.export
            if ex[0] != "bytes":
                raise Undecided("iv_state returns %s" % ex[0])
            got = T.bsubst(ex[1], env, None, F)
            rep.ob(rule_prefix + ".export-public", inst, T.bequal(got, W, F), "iv_state of a freshly initialised object is the public chaining value (IV)", loc,
                   computed=T.bshow(got), expected="W")
            # resume: init(export(st)) == st for every state st
            for of, v in flat_init.items():
                T.declare_var("self." + of, T.blen(v[1]))
                back = T.bsubst(v[1], {"IV": ex[1]}, None, F)
                rep.ob(rule_prefix + ".resume", inst + "." + of, T.bequal(back, T.bvar("self." + of), F), "inner_iv_init(iv_state(st)) reproduces st", loc,
                       computed=T.bshow(back), expected="self." + of)
        except Undecided as e:
            rep.undecided(rule_prefix + ".export", inst, str(e), loc)


def check_dependence(rep, fb, crates=None, rule_prefix="dep"):
    """C15: dependence kinds of decrypt kernels match the definition's propagation table; causality."""
    for be in block_backends(fb, crates):
        if be.dir == "enc":
            continue
        bm = analyse(fb, be)
        inst = be.name()
        loc = loc_of(be.one)
        if "one" in bm.err or "owner" in bm.err:
            rep.undecided(rule_prefix + ".kinds", inst, bm.err.get("one") or bm.err.get("owner"), loc)
            continue
        want = S.PROPAGATION[be.cr.name]
        out, st, _ = bm.one
        fields = bm.state_fields()
        if be.dir == "ks":
            ok = "out_old" not in T.bvars(out[1])
            rep.ob(rule_prefix + ".ks-data-independent", inst, ok and all("out_old" not in T.bvars(st[f][1]) for f in fields), "keystream and next state independent of data", loc)
            continue
        try:
            F = bm.F
            bm.owner.init_fields(fb)
            T.declare_var("W", T.VARLEN["IV"])
            W = T.bvar("W")
            env = {"self." + f: t for f, t in bm.R(W).items()}
            T.declare_var("in", T.blen(out[1]))
            pub_out = T.bsubst(out[1], env, None, F)
            if bm.export is None or "export" in bm.err:
                raise Undecided("no IvState export to express the next public chaining value")
            env2 = {"self." + bm.owner_path(f): T.bsubst(st[f][1], env, None, F) for f in fields}
            pub_next = T.bsubst(bm.export[1], env2, None, F)
        except Undecided as e:
            rep.undecided(rule_prefix + ".kinds", inst, str(e), loc)
            continue
        got = {
            "out_in": dep_kind(pub_out, "in"),
            "out_state": dep_kind(pub_out, "W"),
            "state_in": dep_kind(pub_next, "in"),
            "state_state": dep_kind(pub_next, "W"),
        }
        for k in ("out_in", "out_state", "state_in", "state_state"):
            rep.ob(rule_prefix + ".kind." + k, inst, got[k] == want[k], "dependence of %s" % k, loc, computed=got[k], expected=want[k])
        if be.par is not None and "par" not in bm.err:
            # causality inside the parallel body: block j of the output mentions only input blocks <= j
            rep.ob(rule_prefix + ".par-causal", inst, _causal(bm.par[0][1], "pin", T.blen(out[1]), bm.F), "no output block depends on later input", loc_of(be.par))


def _join(kinds):
    ks = set(kinds)
    ks.discard("none")
    if not ks:
        return "none"
    if ks == {"lin"}:
        return "lin"
    if ks == {"ciph"}:
        return "ciph"
    return "both"


def _max_offsets(b, var, out):
    for p in b:
        if p[0] == "x":
            for a, o in p[2]:
                if a[0] == "var" and a[1] == var:
                    out.append((o, p[1]))
                elif a[0] in ("E", "D"):
                    _max_offsets(a[1], var, out)
        elif p[0] == "m":
            _max_offsets(p[5], var, out)
        elif p[0] == "i":
            _max_offsets(p[3], var, out)
            _max_offsets(p[4], var, out)


def _causal(b, var, elen, F, acc=ZERO):
    """every piece at output offset [o, o+len) only mentions var bytes below o+len (block granularity)."""
    for p in b:
        ln = T.plen(p)
        if p[0] == "i":
            # conditional piece: each branch under its own facts, at the same output offset
            F1, F0 = T.split_facts(F, p[1])
            if not (F1.inconsistent() or _causal(p[3], var, elen, F1, acc)):
                return False
            if not (F0.inconsistent() or _causal(p[4], var, elen, F0, acc)):
                return False
        elif p[0] == "m":
            v = Lin.sym(p[1])
            F2 = F.copy()
            F2.add_ge(v - p[2])
            F2.add_ge(p[3] - 1 - v)
            offs = []
            _max_offsets(p[5], var, offs)
            base = acc + (v - p[2]) * p[4]
            for o, l in offs:
                if not F2.le(o + l, base + p[4]):
                    return False
        else:
            offs = []
            _max_offsets((p,), var, offs)
            for o, l in offs:
                # round the piece end up to the block boundary
                if not F.le(o + l, acc + ln) and not F.le(o + l, acc + elen):
                    return False
        acc = acc + ln
    return True


def check_roundtrip(rep, fb, crates=None, rule_prefix="inv"):
    """C01 (i): with equal pre-states and dec.in := enc.out the decrypt kernel returns the
    plaintext variable and both leave the same public chaining value."""
    bes = block_backends(fb, crates)
    by_crate = {}
    for be in bes:
        by_crate.setdefault(be.cr.name, {})[be.dir] = be
    for crn, d in sorted(by_crate.items()):
        if "enc" not in d or "dec" not in d:
            continue
        e, dd = analyse(fb, d["enc"]), analyse(fb, d["dec"])
        inst = crn
        loc = loc_of(d["dec"].one)
        if any(k in e.err for k in ("one", "owner", "init")) or any(k in dd.err for k in ("one", "owner", "init")):
            rep.undecided(rule_prefix + ".step", inst, "kernel summaries unavailable: %s %s" % (e.err, dd.err), loc)
            continue
        try:
            F = e.F
            e.owner.init_fields(fb)
            wlen = T.VARLEN["IV"]
            T.declare_var("W", wlen)
            W = T.bvar("W")
            Re, Rd = e.R(W), dd.R(W)
            env_e = {"self." + f: t for f, t in Re.items()}
            eo, es, _ = e.one
            T.declare_var("in", T.blen(eo[1]))
            c = T.bsubst(eo[1], env_e, None, F)
            env_d = {"self." + f: t for f, t in Rd.items()}
            env_d["in"] = c
            do, ds, _ = dd.one
            back = T.bsubst(do[1], env_d, None, F)
            rep.ob(rule_prefix + ".step.out", inst, T.bequal(back, T.bvar("in"), F), "dec(enc(P)) normalises to P for one step from equal states", loc,
                   computed=T.bshow(back), expected="in")
            # equal public chaining values afterwards: export(enc.state') == export(dec.state')
            if e.owner.export is not None and dd.owner.export is not None and "export" not in e.err and "export" not in dd.err:
                xe = T.bsubst(e.export[1], {"self." + e.owner_path(f): T.bsubst(es[f][1], env_e, None, F) for f in e.state_fields()}, None, F)
                xd = T.bsubst(dd.export[1], {"self." + dd.owner_path(f): T.bsubst(ds[f][1], env_d, None, F) for f in dd.state_fields()}, None, F)
                rep.ob(rule_prefix + ".step.state", inst, T.bequal(xe, xd, F), "encryptor and decryptor report equal IV states after corresponding data", loc,
                       computed=T.bshow(xd), expected=T.bshow(xe))
            else:
                for f in e.state_fields():
                    if f in dd.state_fields():
                        a = T.bsubst(es[f][1], env_e, None, F)
                        b = T.bsubst(ds[f][1], env_d, None, F)
                        rep.ob(rule_prefix + ".step.state", inst + "." + f, T.bequal(a, b, F), "equal chaining state after the step", loc, computed=T.bshow(b), expected=T.bshow(a))
        except Undecided as ex:
            rep.undecided(rule_prefix + ".step", inst, str(ex), loc)


# ---------------------------------------------------------------- positive controls for the term rules
# (specimen module, rule, must the obligation hold?)  -- /verif/fixtures/src/modes.rs
TERM_CONTROLS = [
    ("good", "def.out", True),
    ("good", "def.state", True),
    ("good", "alias.same.out", True),
    ("good", "alias.no-old-output", True),
    ("stale_iv", "def.state", False),
    ("xor_after", "def.out", False),
    ("chain_plain", "def.state", False),
    ("alias_reread", "alias.same.out", False),
    ("old_output", "alias.no-old-output", False),
    ("par_good", "par.closed-form.out", True),
    ("par_good", "par.closed-form.state", True),
    ("par_lane_shift", "par.closed-form.out", False),
    ("par_state_first", "par.closed-form.state", False),
]


def run_term_controls(rep, prefixes):
    """compile the CBC-shaped specimens of /verif/fixtures with the same driver, run the term rules
    on them with the CBC definition as oracle, and require every broken kernel to be reported and
    the correct ones to be accepted: an equality engine that says 'equal' (or 'unequal') to
    everything cannot pass."""
    from . import itemrules as IR
    from . import facts as FX
    from .report import Report
    todo = [c for c in TERM_CONTROLS if any(c[1].startswith(p) for p in prefixes)]
    try:
        fb, cleanup = IR.fixtures_factbase()
    except FX.FactsError as e:
        rep.ob("control.extract", "fixtures", False, str(e)[-600:])
        return
    try:
        S.BLOCK_MODES["bmsa_fixtures"] = S.BLOCK_MODES["cbc"]
        sc = Report("controls")
        check_definition(sc, fb, ["bmsa_fixtures"])
        check_par(sc, fb, ["bmsa_fixtures"])
        check_inplace(sc, fb, ["bmsa_fixtures"])
        for mod, rule, want in todo:
            hits = [o for o in sc.obls if o["rule"] == rule and ("::%s::" % mod) in o["instance"]]
            got = [o["ok"] for o in hits]
            ok = bool(got) and all(g == want for g in got)
            rep.ob("control." + rule, mod, ok, "specimen `%s` is %s by rule %s (%d obligations: %s)" % (
                mod, "accepted" if want else "reported", rule, len(got), got))
    finally:
        S.BLOCK_MODES.pop("bmsa_fixtures", None)
        cleanup()
