"""CTR (six flavours) and BelT-CTR: counter-block layout, keystream kernels, parallel closed
form, remaining/advance, block-position contract, export/resume."""
from .lin import Lin, lin, ZERO, ONE
from . import terms as T
from .terms import Undecided
from . import specs as S
from .modes import method_body, impl_for, run_plain, subst_value, values_equal, discover_backends, kernel_summary, show_value
from .kernels import (BS, NPAR, CHUNKS, base_ctx, base_facts, ctr_flavors, ctr_ctx, run_backend_method)
from .report import loc_of


def _single(paths, what):
    if len(paths) == 2:
        # `match usize::try_from(x) { Ok(n) => Some(n), Err(_) => None }` written out: two paths that
        # differ only in which variant the symbolic conversion result has -- the same value as
        # `usize::try_from(x).ok()`
        def key(p):
            r = p["ret"]
            cs = [c for c in p["state"].conds if c[0] == "opaque" and c[1] == "disc"]
            if len(cs) != 1:
                return None
            if r[0] == "enum" and r[3] == "Some" and r[4][0][0] == "symval" and r[4][0][1][0] == "okval" and cs[0][3] == 0 \
                    and cs[0][2] == repr(("symres", r[4][0][1][1])):
                return ("ok", r[4][0][1][1])
            if r[0] == "enum" and r[3] == "None" and cs[0][3] == 1:
                return ("none", cs[0][2])
            return None
        ka, kb = key(paths[0]), key(paths[1])
        if ka and kb and {ka[0], kb[0]} == {"ok", "none"}:
            ok, no = (paths[0], paths[1]) if ka[0] == "ok" else (paths[1], paths[0])
            x = (ka if ka[0] == "ok" else kb)[1]
            if (kb if ka[0] == "ok" else ka)[1] == repr(("symres", x)) and ok["cells"] == no["cells"]:
                merged = dict(ok)
                merged["ret"] = ("symopt", ("ok", x))
                return merged
    if len(paths) != 1:
        raise Undecided("%d paths in %s" % (len(paths), what))
    return paths[0]


def flavor_endian(im):
    nm = im["self"].split("::")[-1]
    if nm.endswith("BE"):
        return "be"
    if nm.endswith("LE"):
        return "le"
    return None


def ctr_struct_subst(v, nonce, ctr, F, prefix):
    """substitute nonce bytes / ctr int for the abstract CtrNonce struct vars `prefix`.nonce/.ctr"""
    lenv = {"__ivars__": {prefix + ".ctr": ctr}}
    return subst_value(v, {prefix + ".nonce": nonce}, F, lenv)


class CtrFlavorAnalysis:
    def __init__(self, fb, cr, im):
        self.fb, self.cr, self.im = fb, cr, im
        self.ctx, self.F = ctr_ctx(cr, im)
        self.w = self.ctx.extra["w"]
        self.cs = self.ctx.extra["cs"]
        self.endian = flavor_endian(im)
        self.name = im["self"].split("::")[-1]

    def body(self, name):
        return method_body(self.cr, self.im, name)

    def run(self, name, names):
        b = self.body(name)
        if b is None:
            raise Undecided("no MIR for %s::%s" % (self.name, name))
        ip, paths = run_plain(self.fb, self.cr, b, names, self.ctx, self.F.copy())
        return _single(paths, b["path"]), b


def check_ctr_layout(rep, fb):
    """C04: counter-block layout of every CtrFlavor impl."""
    cr, fls = ctr_flavors(fb)
    for im in fls:
        fa = CtrFlavorAnalysis(fb, cr, im)
        inst = "ctr::" + fa.name
        try:
            if fa.endian is None:
                raise Undecided("flavour name does not say BE/LE")
            w, F = fa.w, fa.F
            # from_nonce
            p, b = fa.run("from_nonce", ["IV"])
            cn0 = p["ret"]
            if cn0[0] != "struct":
                raise Undecided("from_nonce returns %s" % cn0[0])
            fields = cn0[2]
            ctrf = [k for k, v in fields.items() if v[0] == "int"]
            nonf = [k for k, v in fields.items() if v[0] == "bytes"]
            if len(ctrf) != 1 or len(nonf) != 1:
                raise Undecided("CtrNonce struct does not have one integer and one array field")
            rep.ob("ctr.from-nonce.zero", inst, T.iequal(fields[ctrf[0]][1], T.iconst(w, 0), F), "block counter starts at 0", loc_of(b), computed=T.ishow(fields[ctrf[0]][1]), expected="0")
            _unproved(rep, "ctr.no-panic", inst + "::from_nonce", p, b)
            # current_block on {ctr: c, nonce: N}
            p2, b2 = fa.run("current_block", ["cn"])
            cur = p2["ret"]
            _unproved(rep, "ctr.no-panic", inst + "::current_block", p2, b2)
            c = T.ivar(w, "c")
            T.declare_var("IV", fa.cs * CHUNKS)
            got = subst_value(cur, {"cn." + nonf[0]: fields[nonf[0]][1]}, F, {"__ivars__": {"cn." + ctrf[0]: c}})
            want = S.ctr_layout(T.bvar("IV"), w, fa.endian, CHUNKS, c, F)
            rep.ob("ctr.layout", inst, T.bequal(got[1], want, F), "current_block(from_nonce(IV) advanced by c) == IV with counter field + c (mod 2^%d, %s, other bytes untouched)" % (w, fa.endian), loc_of(b2),
                   computed=T.bshow(got[1]), expected=T.bshow(want))
            # next_block
            p3, b3 = fa.run("next_block", ["cn"])
            _unproved(rep, "ctr.no-panic", inst + "::next_block", p3, b3)
            rep.ob("ctr.next.block", inst, T.bequal(p3["ret"][1], cur[1], F), "next_block returns the current counter block", loc_of(b3), computed=T.bshow(p3["ret"][1]), expected=T.bshow(cur[1]))
            after = p3["cells"]["cn"]
            exp_ctr = T.iadd(T.ivar(w, "cn." + ctrf[0]), T.iconst(w, 1))
            rep.ob("ctr.next.advance", inst, T.iequal(after[2][ctrf[0]][1], exp_ctr, F), "counter advances by exactly 1 (wrapping)", loc_of(b3), computed=T.ishow(after[2][ctrf[0]][1]), expected=T.ishow(exp_ctr))
            T.declare_var("cn." + nonf[0], fa.cs * CHUNKS)
            rep.ob("ctr.next.nonce-kept", inst, T.bequal(after[2][nonf[0]][1], T.bvar("cn." + nonf[0]), F), "nonce words unchanged by next_block", loc_of(b3))
            # resume: from_nonce(current_block(st)) observes like st
            renew = subst_value(cn0, {"IV": cur[1]}, F)
            j = T.ivar(w, "j")
            obs_new = subst_value(cur, {"cn." + nonf[0]: renew[2][nonf[0]][1]}, F, {"__ivars__": {"cn." + ctrf[0]: T.iadd(renew[2][ctrf[0]][1], j)}})
            obs_old = subst_value(cur, {}, F, {"__ivars__": {"cn." + ctrf[0]: T.iadd(T.ivar(w, "cn." + ctrf[0]), j)}})
            rep.ob("ctr.resume", inst, T.bequal(obs_new[1], obs_old[1], F), "from_nonce(current_block(st)) yields the same counter blocks as st at every offset j", loc_of(b),
                   computed=T.bshow(obs_new[1]), expected=T.bshow(obs_old[1]))
        except Undecided as e:
            rep.undecided("ctr.layout", inst, str(e), loc_of(fa.body("current_block")))


def _unproved(rep, rule, inst, path, body):
    bad = [o for o in path["oblig"] if not o["ok"]]
    rep.ob(rule, inst, not bad, "; ".join("%s %s" % (o["kind"], o["detail"]) for o in bad[:4]) or "%d panic obligations (bounds, overflow, unwrap) discharged" % len(path["oblig"]), loc_of(body))


def check_ctr_remaining(rep, fb):
    """C11 (i),(ii) for the six flavours; C10 block-position contract."""
    cr, fls = ctr_flavors(fb)
    for im in fls:
        fa = CtrFlavorAnalysis(fb, cr, im)
        inst = "ctr::" + fa.name
        w, F = fa.w, fa.F
        try:
            p, b = fa.run("remaining", ["cn"])
            ctrf = [k for k, v in p["cells"]["cn"][2].items() if v[0] == "int"][0]
            want = ("symopt", ("ok", ("try_usize", T.isub(T.iconst(w, (1 << w) - 1), T.ivar(w, "cn." + ctrf)))))
            rep.ob("rem.exact", inst, p["ret"] == want, "remaining == usize::try_from(2^%d-1 - blocks_used).ok()" % w, loc_of(b), computed=_show_sym(p["ret"]), expected=_show_sym(want))
            p2, b2 = fa.run("as_backend", ["cn"])
            rep.ob("pos.get", inst, p2["ret"][0] == "int" and T.iequal(p2["ret"][1], T.ivar(w, "cn." + ctrf), F), "as_backend reports the block counter", loc_of(b2))
            p3, b3 = fa.run("set_from_backend", ["cn", "v"])
            after = p3["cells"]["cn"]
            rep.ob("pos.set", inst, T.iequal(after[2][ctrf][1], T.ivar(w, "v"), F), "set_from_backend sets the block counter to the argument", loc_of(b3), computed=T.ishow(after[2][ctrf][1]))
            nonf = [k for k, v in after[2].items() if v[0] == "bytes"][0]
            T.declare_var("cn." + nonf, fa.cs * CHUNKS)
            rep.ob("pos.set-keeps-nonce", inst, T.bequal(after[2][nonf][1], T.bvar("cn." + nonf), F), "seeking changes nothing but the block counter", loc_of(b3))
            # counter type is the unsigned integer of exactly the flavour's width
            at = {it["name"]: it for it in im["items"]}
            bt = cr.types[at["Backend"]["ty"]]
            rep.ob("pos.counter-type", inst, bt["k"] == "uint" and bt["name"] == "u%d" % w and fa.name.startswith("Ctr%d" % w), "Counter type u%d matches the %d-bit flavour" % (w, w), loc_of(b2))
        except (Undecided, KeyError, IndexError) as e:
            rep.undecided("rem.exact", inst, str(e), loc_of(fa.body("remaining")))


def _show_sym(v):
    if v[0] == "symopt":
        e = v[1]
        if e[0] == "ok" and e[1][0] == "try_usize":
            return "usize::try_from(%s).ok()" % T.ishow(e[1][1])
    if v[0] == "enum":
        return v[3]
    return repr(v)[:200]


def ctr_backend(fb):
    for be in discover_backends(fb, [fb.crate("ctr")]):
        return be
    return None


def check_ctr_backend(rep, fb):
    """C04/C07: the generic keystream backend bound to each flavour."""
    cr, fls = ctr_flavors(fb)
    be = ctr_backend(fb)
    if be is None:
        rep.ob("ctr.backend", "ctr", False, "no StreamCipherBackend impl found in ctr")
        return
    for im in fls:
        fa = CtrFlavorAnalysis(fb, cr, im)
        inst = "ctr::" + fa.name
        w, F = fa.w, fa.F
        try:
            out, st, p = kernel_summary(fb, be, be.one, alias=False, ctx=fa.ctx, F=F.copy())
            # where the backend keeps the flavour's (counter, nonce) pair: possibly inside a wrapper
            fname, cn = _find_nonce(st)
            cur = fa.run("current_block", ["self." + fname])[0]["ret"]
            _unproved(rep, "ctr.no-panic", inst + "::gen_ks_block", p, be.one)
            want = T.mkcipher("E", cur[1], F)
            rep.ob("ctr.ks.block", inst, T.bequal(out[1], want, F), "keystream block == E(current counter block)", loc_of(be.one), computed=T.bshow(out[1]), expected=T.bshow(want))
            ctrf = [k for k, v in cn[2].items() if v[0] == "int"][0]
            base = T.ivar(w, "self.%s.%s" % (fname, ctrf))
            rep.ob("ctr.ks.advance", inst, T.iequal(cn[2][ctrf][1], T.iadd(base, T.iconst(w, 1)), F), "one block generated => counter + 1", loc_of(be.one), computed=T.ishow(cn[2][ctrf][1]))
            rep.ob("ctr.ks.data-independent", inst, "out_old" not in T.bvars(out[1]) and "out_old" not in _names(cn), "keystream and counter do not depend on the buffer contents", loc_of(be.one))
            if be.tail is not None:
                rep.undecided("par.tail-override", inst, "gen_tail_blocks overridden; no rule built for it", loc_of(be.tail))
            if be.par is not None:
                pout, pst, pp = kernel_summary(fb, be, be.par, alias=False, ctx=fa.ctx, F=F.copy())
                _unproved(rep, "ctr.no-panic", inst + "::gen_par_ks_blocks", pp, be.par)
                j = T.fresh("$pj")
                v = Lin.sym(j)
                Fj = F.copy()
                Fj.add_ge(v)
                Fj.add_ge(NPAR - 1 - v)
                curj = subst_value(cur, {}, Fj, {"__ivars__": {"self.%s.%s" % (fname, ctrf): T.iadd(base, T.isize(w, v))}})
                exp = T.bnorm((("m", j, ZERO, NPAR, fa.cs * CHUNKS, T.mkcipher("E", curj[1], Fj)),), F)
                rep.ob("par.closed-form.out", inst, T.bequal(pout[1], exp, F), "parallel keystream == n successive one-block results (n symbolic)", loc_of(be.par), computed=T.bshow(pout[1]), expected=T.bshow(exp))
                pcn = _find_nonce(pst)[1]
                rep.ob("par.closed-form.state", inst, T.iequal(pcn[2][ctrf][1], T.iadd(base, T.isize(w, NPAR)), F), "counter + n after a parallel call", loc_of(be.par), computed=T.ishow(pcn[2][ctrf][1]))
                # batching independence proper: against the n-fold iterate of the ACTUAL one-block kernel
                _n_fold(rep, inst, "self.%s.%s" % (fname, ctrf), base, w, out[1], cn[2][ctrf][1], pout[1], pcn[2][ctrf][1], fa.cs * CHUNKS, F, be.par)
        except (Undecided, KeyError, IndexError) as e:
            rep.undecided("ctr.ks.block", inst, str(e), loc_of(be.one))


def _n_fold(rep, inst, cname, base, w, one_out, one_ctr, par_out, par_ctr, blen, F, body):
    """parallel body == n-fold iterate of the one-block kernel as it is written (whatever it
    computes): the kernel's only carried state is the counter word `cname`, which it advances by a
    constant, so its j-th iterate is the kernel's output with the counter moved j steps."""
    try:
        step = T.isub(one_ctr, base)
        if step[3]:
            raise Undecided("one-block kernel does not advance the counter by a constant")
        j = T.fresh("$nj")
        v = Lin.sym(j)
        Fj = F.copy()
        Fj.add_ge(v)
        Fj.add_ge(NPAR - 1 - v)
        at_j = T.iadd(base, T.imulc(T.isize(w, v), step[2]))
        out_j = T.bsubst(one_out, {}, {"__ivars__": {cname: at_j}}, Fj)
        exp = T.bnorm((("m", j, ZERO, NPAR, blen, out_j),), F)
        rep.ob("par.n-fold.out", inst, T.bequal(par_out, exp, F), "parallel keystream == n-fold iterate of the one-block kernel as written (n symbolic)", loc_of(body), computed=T.bshow(par_out), expected=T.bshow(exp))
        end = T.iadd(base, T.imulc(T.isize(w, NPAR), step[2]))
        rep.ob("par.n-fold.state", inst, T.iequal(par_ctr, end, F), "counter after a parallel call == after n one-block calls", loc_of(body), computed=T.ishow(par_ctr), expected=T.ishow(end))
    except (Undecided, KeyError, IndexError, TypeError) as e:
        rep.undecided("par.n-fold", inst, str(e), loc_of(body))


def _find_nonce(state):
    """(dotted path, struct value) of the one struct in a backend state summary that has an integer
    counter field and a byte-array field: the flavour's CtrNonce, wherever it is nested."""
    found = []

    def walk(path, v):
        if v[0] != "struct":
            return
        kinds = sorted(x[0] for x in v[2].values())
        if kinds == ["bytes", "int"]:
            found.append((path, v))
            return
        for k, x in v[2].items():
            walk(path + "." + str(k), x)
    for k, v in state.items():
        walk(str(k), v)
    uniq = {}
    for pth, v in found:
        uniq.setdefault(pth, v)
    found = list(uniq.items())
    if len(found) != 1:
        raise Undecided("backend state holds %d (counter, nonce) structs" % len(found))
    return found[0]


def _names(v):
    from .loops import value_names
    return value_names(v)


def check_ctr_core(rep, fb):
    """CtrCore glue: inner_iv_init = from_nonce, iv_state = current_block, remaining/pos delegate (per flavour)."""
    cr, fls = ctr_flavors(fb)
    core = None
    for im in cr.impls:
        if im.get("trait_name") == "StreamCipherCore":
            core = im.get("self_adt")
    if core is None:
        rep.ob("ctr.core", "ctr", False, "no StreamCipherCore impl in ctr")
        return
    for im in fls:
        fa = CtrFlavorAnalysis(fb, cr, im)
        inst = "ctr::CtrCore<" + fa.name + ">"
        F = fa.F
        try:
            def run(trait, meth, names):
                i2 = impl_for(cr, trait, core)
                b = method_body(cr, i2, meth) if i2 else None
                if b is None:
                    raise Undecided("no %s::%s for %s" % (trait, meth, core))
                ip, paths = run_plain(fb, cr, b, names, fa.ctx, F.copy())
                return _single(paths, b["path"]), b
            fn = fa.run("from_nonce", ["IV"])[0]["ret"]
            p, b = run("InnerIvInit", "inner_iv_init", ["c", "IV"])
            got = p["ret"][2]
            cnf = [k for k, v in got.items() if v[0] == "struct"]
            rep.ob("ctr.core.init", inst, len(cnf) == 1 and values_equal(got[cnf[0]], fn, F), "inner_iv_init stores from_nonce(iv)", loc_of(b))
            cur = fa.run("current_block", ["self." + cnf[0]])[0]["ret"]
            p2, b2 = run("IvState", "iv_state", ["self"])
            rep.ob("ctr.core.export", inst, values_equal(p2["ret"], cur, F), "iv_state is the next counter block", loc_of(b2), computed=show_value(p2["ret"]), expected=show_value(cur))
            rem = fa.run("remaining", ["self." + cnf[0]])[0]["ret"]
            p3, b3 = run("StreamCipherCore", "remaining_blocks", ["self"])
            rep.ob("rem.delegates", inst, p3["ret"] == rem, "remaining_blocks == flavour's remaining(counter state)", loc_of(b3), computed=_show_sym(p3["ret"]), expected=_show_sym(rem))
            p4, b4 = run("StreamCipherSeekCore", "get_block_pos", ["self"])
            asb = fa.run("as_backend", ["self." + cnf[0]])[0]["ret"]
            rep.ob("pos.core.get", inst, values_equal(p4["ret"], asb, F), "get_block_pos == flavour's as_backend", loc_of(b4))
            p5, b5 = run("StreamCipherSeekCore", "set_block_pos", ["self", "v"])
            sfb = fa.run("set_from_backend", ["self." + cnf[0], "v"])[0]["cells"]["self." + cnf[0]]
            rep.ob("pos.core.set", inst, values_equal(p5["cells"]["self"][2][cnf[0]], sfb, F), "set_block_pos == flavour's set_from_backend on the counter state", loc_of(b5))
        except (Undecided, KeyError, IndexError) as e:
            rep.undecided("ctr.core", inst, str(e))


# ---------------------------------------------------------------- BelT-CTR
def belt_ctx():
    c = base_ctx()
    c.alias_len["BlockSize"] = lin(16)
    c.alias_len["IvSize"] = lin(16)
    return c


def check_belt(rep, fb, parts=("def", "rem", "pos", "par", "export")):
    cr = fb.crate("belt_ctr")
    bes = discover_backends(fb, [cr])
    ctx, F = belt_ctx(), base_facts()
    core = None
    for im in cr.impls:
        if im.get("trait_name") == "StreamCipherCore":
            core = im.get("self_adt")
    inst = "belt_ctr::" + str(core)
    if not bes or core is None:
        rep.ob("belt.kernel", "belt_ctr", False, "no StreamCipherBackend / StreamCipherCore impl found")
        return

    def run(trait, meth, names):
        i2 = impl_for(cr, trait, core)
        b = method_body(cr, i2, meth) if i2 else None
        if b is None:
            raise Undecided("no %s::%s for %s" % (trait, meth, core))
        ip, paths = run_plain(fb, cr, b, names, belt_ctx(), F.copy())
        return _single(paths, b["path"]), b
    be = bes[0]
    w = 128
    try:
        from .modes import owner_of
        ow, fmap = owner_of(fb, be, belt_ctx(), F.copy())
        if ow is None:
            raise Undecided("no owner hands out the BelT backend")
        sfields = [f for f, o in fmap.items() if not o.startswith("<")]
        out, st, pth = kernel_summary(fb, be, be.one, alias=False, ctx=belt_ctx(), F=F.copy())
        # the running counter `s`: the one 128-bit leaf of the borrowed state that a keystream block
        # changes (the backend may borrow the word itself or a struct that holds both words)
        leaves = {k: v for k, v in st.items() if v[0] == "int" and any(k == f or k.startswith(f + ".") for f in sfields)}
        moved = [k for k, v in leaves.items() if not T.iequal(v[1], T.ivar(v[1][1], "self." + k), F)]
        if len(moved) != 1:
            raise Undecided("a keystream block changes %d integer words of the borrowed state %s" % (len(moved), sorted(leaves)))
        sf = moved[0]
        first, _, rest = sf.partition(".")
        of = fmap[first] + ("." + rest if rest else "")
        p, b = run("InnerIvInit", "inner_iv_init", ["c", "IV"])
        from .modes import flatten_value
        init = flatten_value(p["ret"])      # dotted paths: the two words may live in a nested plain struct
        T.declare_var("IV", lin(16))
        s0 = S.belt_s0(T.bvar("IV"), F)
        ints = [k for k, v in init.items() if v[0] == "int"]
        if "def" in parts:
            rep.ob("belt.init", inst, all(T.iequal(init[k][1], s0, F) for k in ints) and of in ints and len(ints) == 2,
                   "s and s_init are both E(IV) read little-endian", loc_of(b), computed=", ".join("%s=%s" % (k, T.ishow(init[k][1])) for k in ints), expected=T.ishow(s0))
        other = [k for k in ints if k != of]
        base = T.ivar(w, "self." + sf)
        if "def" in parts:
            want = S.belt_ks(base, T.iconst(w, 1), F)
            rep.ob("belt.ks.block", inst, T.bequal(out[1], want, F), "keystream block == E(le(s+1)) (pre-increment, mod 2^128)", loc_of(be.one), computed=T.bshow(out[1]), expected=T.bshow(want))
            rep.ob("belt.ks.advance", inst, T.iequal(st[sf][1], T.iadd(base, T.iconst(w, 1)), F), "s advances by exactly 1 (wrapping)", loc_of(be.one), computed=T.ishow(st[sf][1]))
            rep.ob("belt.ks.data-independent", inst, "out_old" not in T.bvars(out[1]), "keystream independent of the buffer", loc_of(be.one))
            _unproved(rep, "belt.no-panic", inst + "::gen_ks_block", pth, be.one)
        if be.tail is not None:
            rep.undecided("par.tail-override", inst, "gen_tail_blocks overridden; no rule built for it", loc_of(be.tail))
        if "par" in parts and be.par is not None:
            pout, pst, pp = kernel_summary(fb, be, be.par, alias=False, ctx=belt_ctx(), F=F.copy())
            j = T.fresh("$bj")
            v = Lin.sym(j)
            Fj = F.copy()
            Fj.add_ge(v)
            Fj.add_ge(NPAR - 1 - v)
            exp = T.bnorm((("m", j, ZERO, NPAR, lin(16), S.belt_ks(base, T.iadd(T.isize(w, v), T.iconst(w, 1)), Fj)),), F)
            rep.ob("par.closed-form.out", inst, T.bequal(pout[1], exp, F), "parallel keystream == n successive one-block results", loc_of(be.par), computed=T.bshow(pout[1]), expected=T.bshow(exp))
            rep.ob("par.closed-form.state", inst, T.iequal(pst[sf][1], T.iadd(base, T.isize(w, NPAR)), F), "s + n after a parallel call", loc_of(be.par), computed=T.ishow(pst[sf][1]))
            _n_fold(rep, inst, "self." + sf, base, w, out[1], st[sf][1], pout[1], pst[sf][1], lin(16), F, be.par)
            _unproved(rep, "belt.no-panic", inst + "::gen_par_ks_blocks", pp, be.par)
        sv = T.ivar(w, "self." + of)
        if not other:
            raise Undecided("the core keeps no second 128-bit word (initial counter) next to `%s`" % of)
        si = T.ivar(w, "self." + other[0])
        if "rem" in parts:
            p3, b3 = run("StreamCipherCore", "remaining_blocks", ["self"])
            want = ("symopt", ("ok", ("try_usize", T.isub(T.iconst(w, (1 << w) - 1), T.isub(sv, si)))))
            rep.ob("rem.exact", inst, p3["ret"] == want, "remaining == usize::try_from(2^128-1 - (s - s_init)).ok()", loc_of(b3), computed=_show_sym(p3["ret"]), expected=_show_sym(want))
        if "pos" in parts:
            p4, b4 = run("StreamCipherSeekCore", "get_block_pos", ["self"])
            rep.ob("pos.get", inst, T.iequal(p4["ret"][1], T.isub(sv, si), F), "get_block_pos == s - s_init (blocks generated)", loc_of(b4), computed=T.ishow(p4["ret"][1]))
            p5, b5 = run("StreamCipherSeekCore", "set_block_pos", ["self", "v"])
            after = flatten_value(p5["cells"]["self"])
            rep.ob("pos.set", inst, T.iequal(after[of][1], T.iadd(si, T.ivar(w, "v")), F) and T.iequal(after[other[0]][1], si, F), "set_block_pos sets s = s_init + pos and keeps s_init", loc_of(b5), computed=T.ishow(after[of][1]))
            rep.ob("pos.counter-type", inst, True, "Counter = u128 (checked through get_block_pos return width %d)" % p4["ret"][1][1], loc_of(b4)) if p4["ret"][1][1] == 128 else rep.ob("pos.counter-type", inst, False, "Counter width %d" % p4["ret"][1][1], loc_of(b4))
        if "export" in parts:
            p6, b6 = run("IvState", "iv_state", ["self"])
            # resume: init(export(st)).s == st.s
            back = subst_value(init[of], {"IV": p6["ret"][1]}, F)
            rep.ob("ivstate.resume", inst, T.iequal(back[1], sv, F), "inner_iv_init(iv_state(st)) restores s", loc_of(b6), computed=T.ishow(back[1]), expected=T.ishow(sv))
            pub = subst_value(p6["ret"], {}, F, {"__ivars__": {"self." + of: s0}})
            rep.ob("ivstate.export-public", inst, T.bequal(pub[1], T.bvar("IV"), F), "iv_state of a fresh object is the IV", loc_of(b6), computed=T.bshow(pub[1]), expected="IV")
    except (Undecided, KeyError, IndexError, TypeError, ValueError) as e:
        rep.undecided("belt.kernel", inst, "%s: %s" % (type(e).__name__, e), loc_of(be.one))


def check_ctr_aliases(rep, fb):
    """the public byte-level aliases of `ctr` wrap the core over the flavour of the same name, and
    that flavour's counter type has the width the name states (Ctr64BE must not count in 128 bits)."""
    import re
    cr, fls = ctr_flavors(fb)
    by_name = {im["self"].split("::")[-1]: im for im in fls}
    n = 0
    for al in cr.aliases:
        t = cr.types[al["ty"]]
        if al["vis"] != "Public" or t["k"] != "adt" or not t["adt"].endswith("StreamCipherCoreWrapper"):
            continue
        n += 1
        inst = "ctr::" + al["name"]
        core = [cr.types[a["ty"]] for a in t["args"] if "ty" in a]
        fl = None
        if core and core[0]["k"] == "adt":
            targs = [cr.types[a["ty"]] for a in core[0]["args"] if "ty" in a]
            if len(targs) == 2 and targs[1]["k"] == "adt":
                fl = targs[1]["adt"].split("::")[-1]
        m = re.match(r"Ctr(\d+)(BE|LE)$", al["name"])
        ok = fl is not None and fl == al["name"] and fl in by_name and m is not None
        detail = "alias %s wraps CtrCore<_, %s>" % (al["name"], fl)
        if ok:
            at = {it["name"]: it for it in by_name[fl]["items"]}
            bt = cr.types[at["Backend"]["ty"]]
            ok = bt["k"] == "uint" and bt["name"] == "u" + m.group(1)
            detail += "; its counter type is %s" % bt.get("name")
        rep.ob("ctr.alias", inst, ok, detail)
    if n == 0:
        rep.ob("ctr.alias", "ctr", False, "no public StreamCipherCoreWrapper alias found in ctr")
