"""Discovery of the mode implementations (through the traits they implement) and the
kernel-level analyses shared by several properties."""
from .lin import Lin, Facts, lin, ZERO, ONE
from . import terms as T
from .terms import Undecided
from . import kernels as K
from . import specs as S
from .kernels import BS, NPAR, base_ctx, base_facts, abstract_value, run_method, run_backend_method, show_value
from .interp import Interp, State, Target, vbytes, vref
from .report import loc_of

ONE_BLOCK = {"BlockModeEncBackend": "encrypt_block", "BlockModeDecBackend": "decrypt_block", "StreamCipherBackend": "gen_ks_block"}
PAR = {"BlockModeEncBackend": "encrypt_par_blocks", "BlockModeDecBackend": "decrypt_par_blocks", "StreamCipherBackend": "gen_par_ks_blocks"}
TAIL = {"BlockModeEncBackend": "encrypt_tail_blocks", "BlockModeDecBackend": "decrypt_tail_blocks", "StreamCipherBackend": "gen_tail_blocks"}
DIR = {"BlockModeEncBackend": "enc", "BlockModeDecBackend": "dec", "StreamCipherBackend": "ks"}
OWNER_TRAIT = {"BlockModeEncBackend": ("BlockModeEncrypt", "encrypt_with_backend"),
               "BlockModeDecBackend": ("BlockModeDecrypt", "decrypt_with_backend"),
               "StreamCipherBackend": ("StreamCipherCore", "process_with_backend")}


def method_body(cr, im, name):
    for b in cr.bodies_of_impl(im):
        if b["name"] == name:
            return b
    return None


def impl_for(cr, trait_name, adt):
    for im in cr.impls:
        if im.get("trait_name") == trait_name and im.get("self_adt") == adt:
            return im
    return None


class Backend:
    """one impl of a *Backend trait in a workspace crate."""

    def __init__(self, cr, im):
        self.cr = cr
        self.im = im
        self.trait = im["trait_name"]
        self.dir = DIR[self.trait]
        self.adt = im.get("self_adt")
        self.one = method_body(cr, im, ONE_BLOCK[self.trait])
        self.par = method_body(cr, im, PAR[self.trait])
        self.tail = method_body(cr, im, TAIL[self.trait])
        pim = impl_for(cr, "ParBlocksSizeUser", self.adt)
        self.par_decl = None
        if pim:
            for it in pim["items"]:
                if it["name"] == "ParBlocksSize":
                    self.par_decl = it["ty_s"]
        bim = impl_for(cr, "BlockSizeUser", self.adt)
        self.bs_decl = None
        if bim:
            for it in bim["items"]:
                if it["name"] == "BlockSize":
                    self.bs_decl = it["ty_s"]

    def name(self):
        return "%s::%s[%s]" % (self.cr.name, self.adt, self.dir)


def discover_backends(fb, crates=None):
    out = []
    for cr in (crates or fb.workspace()):
        for tn in ONE_BLOCK:
            for im in cr.impls:
                if im.get("trait_name") == tn and im.get("trait_krate") == "cipher":
                    out.append(Backend(cr, im))
    return out


def kernel_summary(fb, be, body, alias, in_name="in", ctx=None, F=None):
    """single-path summary of a backend method: (out term, {field: term}, path dict)."""
    ip, paths = run_backend_method(fb, be.cr, body, alias=alias, ctx=ctx, F=F, in_name=in_name)
    if len(paths) != 1:
        raise Undecided("%d paths in kernel %s" % (len(paths), body["path"]))
    p = paths[0]
    out = p["cells"].get("out")
    state = {}
    for nm, v in p["cells"].items():
        if nm.startswith("self.") and v is not None and v[0] in ("bytes", "int", "struct"):
            state[nm[5:]] = v
            if v[0] == "struct":
                for leaf, lv in flatten_value(v).items():
                    state[nm[5:] + "." + leaf] = lv
    return out, state, p


def flatten_value(v, prefix=""):
    """{dotted leaf path: bytes/int value} of a (nested) struct value."""
    out = {}
    if v[0] == "struct":
        for n, x in v[2].items():
            out.update(flatten_value(x, prefix + n + "."))
    elif v[0] in ("bytes", "int"):
        out[prefix[:-1]] = v
    return out


def run_plain(fb, cr, body, names, ctx=None, F=None, alias=False):
    """run body with abstract args named `names`; returns (ip, paths)."""
    def build(ip, st):
        if alias:
            ip.ctx.extra["alias"] = True
        args = []
        for i in range(1, body["arg_count"] + 1):
            nm = names[i - 1] if i - 1 < len(names) else "a%d" % i
            args.append(abstract_value(ip, cr, st, body["locals"][i]["ty"], nm))
        cells = {c[1]: c for c in st.heap if c[0] == "A"}
        return args, cells
    return run_method(fb, cr, body, build, ctx or base_ctx(), F or base_facts())


class Owner:
    """public mode type: its *_with_backend plumbing, InnerIvInit and IvState."""

    def __init__(self, fb, cr, im, be_trait):
        self.cr = cr
        self.im = im
        self.adt = im.get("self_adt")
        self.trait = im["trait_name"]
        self.with_backend = method_body(cr, im, OWNER_TRAIT[be_trait][1])
        self.init_im = impl_for(cr, "InnerIvInit", self.adt)
        self.state_im = impl_for(cr, "IvState", self.adt)
        self.init = method_body(cr, self.init_im, "inner_iv_init") if self.init_im else None
        self.export = method_body(cr, self.state_im, "iv_state") if self.state_im else None

    def plumbing(self, fb, ctx=None, F=None):
        """backend adt + map backend field -> owner field path, from the driver_call event."""
        ip, paths = run_plain(fb, self.cr, self.with_backend, ["self", "f"], ctx, F)
        if len(paths) != 1:
            raise Undecided("%d paths in %s" % (len(paths), self.with_backend["path"]))
        calls = [e for e in paths[0]["events"] if e[0] == "driver_call"]
        wb = [e for e in paths[0]["events"] if e[0] == "with_backend"]
        if len(calls) != 1 or len(wb) != 1:
            raise Undecided("driver closure called %d times, cipher with_backend %d times in %s" % (len(calls), len(wb), self.with_backend["path"]))
        bev = calls[0][2]
        if bev[0] != "struct":
            raise Undecided("backend value is %s" % bev[0])
        # the (abstract) driver did nothing: the owner's state must be what it was on entry, i.e.
        # nothing around the driver call (e.g. a Drop impl of the transient backend) touches it
        self.state_after = paths[0]["cells"].get("self")
        fmap = {}

        def classify(fname, v):
            if v[0] == "ref":
                tg = v[1]
                if tg.cell == ("A", "self"):
                    fmap[fname] = ".".join(str(s[1]) for s in tg.path if s[0] == "f")
                elif tg.cell == ("A", "cipher_backend"):
                    fmap[fname] = "<cipher>"
                else:
                    fmap[fname] = "<other:%r>" % (tg,)
            elif v[0] in ("zst", "unit") or (v[0] == "struct" and not v[2]):
                fmap[fname] = "<zst>"          # direction markers, PhantomData
            elif v[0] == "struct":
                # a by-value wrapper (newtype around the borrowed state): its fields decide
                for k, x in v[2].items():
                    classify("%s.%s" % (fname, k), x)
            else:
                fmap[fname] = "<value>"
        for fname, v in bev[2].items():
            classify(str(fname), v)
        return bev[1], fmap

    def init_fields(self, fb, ctx=None, F=None):
        """owner fields after inner_iv_init(cipher, &IV) as terms over byte var 'IV'."""
        ip, paths = run_plain(fb, self.cr, self.init, ["c", "IV"], ctx, F)
        if len(paths) != 1:
            raise Undecided("%d paths in %s" % (len(paths), self.init["path"]))
        r = paths[0]["ret"]
        if r[0] != "struct":
            raise Undecided("inner_iv_init returns %s" % r[0])
        return r[2], paths[0]

    def export_term(self, fb, ctx=None, F=None):
        """iv_state(&self) as a term over byte vars 'self.<field>'."""
        ip, paths = run_plain(fb, self.cr, self.export, ["self"], ctx, F)
        if len(paths) != 1:
            raise Undecided("%d paths in %s" % (len(paths), self.export["path"]))
        return paths[0]["ret"], paths[0]


def discover_owners(fb, be):
    tn, _ = OWNER_TRAIT[be.trait]
    out = []
    for im in be.cr.impls:
        if im.get("trait_name") == tn and im.get("trait_krate") == "cipher":
            out.append(Owner(fb, be.cr, im, be.trait))
    return out


def owner_of(fb, be, ctx=None, F=None):
    """the owner whose plumbing hands out backend `be` (decided from the MIR, not by name)."""
    for ow in discover_owners(fb, be):
        try:
            adt, fmap = ow.plumbing(fb, ctx, F)
        except Undecided:
            continue
        if adt == be.adt:
            return ow, fmap
    return None, None


# ---------------------------------------------------------------- term helpers
def state_env(fields, prefix="self."):
    """{var name: BStr} for substituting backend/owner state variables."""
    env = {}
    for n, v in fields.items():
        if v[0] == "bytes":
            env[prefix + n] = v[1]
    return env


def subst_value(v, venv, F, lenv=None):
    from .loops import vsub
    return vsub(v, venv, lenv or {}, F)


def values_equal(a, b, F):
    from .loops import veq
    return veq(a, b, F)


def dep_kind(term, var):
    """how BStr `term` depends on byte variable `var`: none / lin / ciph / both."""
    lin_, ciph = _dep(term, var, False)
    if lin_ and ciph:
        return "both"
    if lin_:
        return "lin"
    if ciph:
        return "ciph"
    return "none"


def _dep(b, var, inside):
    l = c = False
    for p in b:
        k = p[0]
        if k == "x":
            for a, o in p[2]:
                l2, c2 = _dep_atom(a, var, inside)
                l |= l2
                c |= c2
        elif k == "m":
            l2, c2 = _dep(p[5], var, inside)
            l |= l2
            c |= c2
        elif k == "i":
            for br in (p[3], p[4]):
                l2, c2 = _dep(br, var, inside)
                l |= l2
                c |= c2
    return l, c


def _dep_atom(a, var, inside):
    k = a[0]
    if k == "var":
        if a[1] == var:
            return (not inside, inside)
        return (False, False)
    if k in ("E", "D"):
        l, c = _dep(a[1], var, True)
        return (False, l or c)
    if k == "ib":
        if var in T.ivars(a[3]):
            return (False, True)
        return (False, False)
    if k == "rec":
        if var in T.REC[a[1]]["vars"]:
            return (False, True)
    return (False, False)
