"""Readable printer for the JSON MIR emitted by bmsa-driver (development aid)."""
import json
import sys


def place_s(p):
    s = "_%d" % p["local"]
    for e in p["proj"]:
        k = e["k"]
        if k == "deref":
            s = "(*%s)" % s
        elif k == "field":
            s = "%s.%s" % (s, e.get("name", e["i"]))
        elif k == "index":
            s = "%s[_%d]" % (s, e["local"])
        elif k == "constindex":
            s = "%s[%s%d of %d]" % (s, "-" if e["from_end"] else "", e["offset"], e["min_length"])
        elif k == "subslice":
            s = "%s[%d..%s%d]" % (s, e["from"], "-" if e["from_end"] else "", e["to"])
        elif k == "downcast":
            s = "(%s as %s)" % (s, e.get("name", e["variant"]))
        else:
            s = "%s.<%s>" % (s, k)
    return s


def fn_s(f, types):
    a = []
    for g in f["args"]:
        if "ty" in g:
            a.append(types[g["ty"]]["s"])
        elif "const" in g:
            a.append(g["const"])
    r = f["path"] + ("::<%s>" % ", ".join(a) if a else "")
    if "resolved" in f:
        r += " => " + f["resolved"]["path"]
    return r


def op_s(o, types):
    k = o["k"]
    if k in ("copy", "move"):
        return "%s %s" % (k, place_s(o["place"]))
    if k == "const":
        if "fn" in o:
            return fn_s(o["fn"], types)
        if "int" in o:
            return "const %s_%s" % (o["int"], types[o["ty"]]["s"])
        return "const{%s}" % o.get("text")
    return "?%s" % o.get("text")


def rv_s(r, types):
    k = r["k"]
    if k == "use":
        return op_s(r["op"], types)
    if k == "ref":
        return "&%s%s" % ("mut " if r["mut"] else "", place_s(r["place"]))
    if k == "cast":
        return "%s as %s (%s)" % (op_s(r["op"], types), types[r["ty"]]["s"], r["cast"])
    if k == "binop":
        return "%s(%s, %s)" % (r["op"], op_s(r["a"], types), op_s(r["b"], types))
    if k == "unop":
        return "%s(%s)" % (r["op"], op_s(r["a"], types))
    if k == "discriminant":
        return "discriminant(%s)" % place_s(r["place"])
    if k == "aggregate":
        nm = r.get("adt") or r.get("fn") or r["agg"]
        if r["agg"] == "adt":
            nm += "::" + r["variant_name"]
        return "%s{%s}" % (nm, ", ".join(op_s(x, types) for x in r["ops"]))
    if k == "copyforderef":
        return "deref_copy %s" % place_s(r["place"])
    if k == "repeat":
        return "[%s; %s]" % (op_s(r["op"], types), r["count"])
    if k == "rawptr":
        return "&raw %s" % place_s(r["place"])
    return "?? %s" % r.get("text")


def print_body(b, types, out=sys.stdout):
    w = out.write
    w("fn %s  [%s] args=%d  %s:%d\n" % (b["path"], b["kind"], b["arg_count"], b["span"]["file"], b["span"]["line"]))
    if "impl_trait" in b:
        w("   impl %s for %s\n" % (b["impl_trait"], b["impl_self"]))
    names = {}
    for d in b["debug"]:
        if not d["place"]["proj"]:
            names[d["place"]["local"]] = d["name"]
    for i, l in enumerate(b["locals"]):
        w("   let _%d: %s  %s\n" % (i, types[l["ty"]]["s"], "// " + names[i] if i in names else ""))
    for i, bb in enumerate(b["blocks"]):
        w("  bb%d%s:\n" % (i, " (cleanup)" if bb["cleanup"] else ""))
        for st in bb["stmts"]:
            if st["k"] == "assign":
                w("      %s = %s\n" % (place_s(st["place"]), rv_s(st["rv"], types)))
            else:
                w("      %s\n" % st)
        t = bb["term"]
        k = t["k"]
        if k == "call":
            w("      %s = %s(%s) -> bb%s\n" % (place_s(t["dest"]), op_s(t["func"], types), ", ".join(op_s(a, types) for a in t["args"]), t["target"]))
        elif k == "switch":
            w("      switch %s %s else bb%d\n" % (op_s(t["discr"], types), ["%s->bb%d" % (a, bt) for a, bt in t["arms"]], t["otherwise"]))
        elif k == "assert":
            w("      assert(%s == %s, %s) -> bb%d\n" % (op_s(t["cond"], types), t["expected"], t["msg_kind"], t["target"]))
        elif k == "drop":
            w("      drop(%s) -> bb%d\n" % (place_s(t["place"]), t["target"]))
        elif k == "goto":
            w("      goto bb%d\n" % t["target"])
        else:
            w("      %s\n" % k)


if __name__ == "__main__":
    facts = json.load(open(sys.argv[1]))
    pat = sys.argv[2] if len(sys.argv) > 2 else ""
    for b in facts["bodies"]:
        if pat in b["path"]:
            print_body(b, facts["types"])
            print()
