"""Obligation bookkeeping shared by all property rules."""


class Report:
    def __init__(self, prop):
        self.prop = prop
        self.obls = []
        self.notes = []

    def ob(self, rule, inst, ok, detail="", loc=None, computed=None, expected=None, undecided=False):
        self.obls.append({
            "rule": rule, "instance": inst, "ok": bool(ok), "detail": detail, "loc": loc,
            "computed": computed, "expected": expected, "undecided": undecided,
            "key": "%s|%s" % (rule, inst),
        })
        return bool(ok)

    def undecided(self, rule, inst, why, loc=None):
        return self.ob(rule, inst, False, "undecided-construct: %s" % why, loc=loc, undecided=True)

    def violations(self):
        return [o for o in self.obls if not o["ok"]]

    def extend(self, other):
        self.obls.extend(other.obls)
        self.notes.extend(other.notes)


def loc_of(body):
    sp = body.get("span") if body else None
    if not sp:
        return None
    return "%s:%d" % (sp["file"], sp["line"])
