"""Ciphertext stealing (cts crate): end-to-end summaries of the 12 entry points per
(k, d) case against the SP 800-38A addendum layout, gates, in-place equivalence,
round trip, helper functions."""
import re

from .lin import Lin, lin, ZERO, ONE
from . import terms as T
from .terms import Undecided
from . import specs as S
from .modes import method_body, run_plain, show_value
from .kernels import BS, NPAR, base_ctx, base_facts
from .report import loc_of

K = Lin.sym("k")
D = Lin.sym("d")

_cache = {}


def cts_ctx():
    c = base_ctx()
    c.alias_len["ParBlocksSize"] = ONE     # end-to-end terms are computed for width 1; wider backends: see check_helpers
    return c


def cts_types(fb):
    """(adt path, scheme, variant, enc body, dec body) discovered through the Encrypt/Decrypt traits of the crate."""
    cr = fb.crate("cts")
    out = {}
    for im in cr.impls:
        tn = im.get("trait_name")
        if tn in ("Encrypt", "Decrypt") and im.get("trait_krate") == "cts" and im.get("self_adt"):
            adt = im["self_adt"]
            nm = adt.split("::")[-1]
            m = re.match(r"(Cbc|Ecb)Cs([123])$", nm)
            ent = out.setdefault(adt, {"adt": adt, "name": nm, "scheme": m.group(1).lower() if m else None, "variant": int(m.group(2)) if m else None})
            ent["enc" if tn == "Encrypt" else "dec"] = method_body(cr, im, "encrypt_inout" if tn == "Encrypt" else "decrypt_inout")
    return cr, [out[k] for k in sorted(out)]


def run_entry(fb, cr, body, alias):
    key = (id(fb), body["path"], alias)
    if key not in _cache:
        try:
            ip, paths = run_plain(fb, cr, body, ["self", "buf"], cts_ctx(), base_facts(), alias=alias)
            _cache[key] = (paths, None)
        except Undecided as e:
            _cache[key] = (None, str(e))
    return _cache[key]


def classify(paths):
    """split paths into the rejecting path(s) and accepting paths."""
    err, ok = [], []
    for p in paths:
        r = p["ret"]
        if r[0] == "enum" and r[3] == "Err":
            err.append(p)
        elif r[0] == "enum" and r[3] == "Ok":
            ok.append(p)
        else:
            raise Undecided("entry point returns %s" % (r[0],))
    return err, ok


CASES = [("k=1", 1), ("k=2", 2), ("k>=3", None)]


def refine(p, kcase):
    """facts of path p specialised to a k case; returns (F, lenv) or None if infeasible."""
    F = p["F"].copy()
    lenv = {}
    if kcase is None:
        F.add_ge(K - 3)
    else:
        F.add_eq(K - kcase)
        lenv = {"k": lin(kcase)}
    F.saturate({"k", "d"})
    if F.inconsistent():
        return None
    if F.prove_eq(D):
        lenv["d"] = ZERO
    return F, lenv


def out_cell(p, alias):
    v = p["cells"].get("in" if alias else "out")
    if v is None or v[0] != "bytes":
        raise Undecided("no output buffer in summary")
    return v[1]


def dcase(F):
    if F.prove_eq(D):
        return "d=0"
    if F.prove_ge(D - 1):
        return "d>0"
    return None


def check_layout(rep, fb, rule_prefix="cts"):
    """C05: output of every entry point per (k,d) case == addendum layout; gate exact."""
    cr, types = cts_types(fb)
    for ty in types:
        for dir_ in ("enc", "dec"):
            body = ty.get(dir_)
            inst = "cts::%s[%s]" % (ty["name"], dir_)
            if body is None:
                rep.ob(rule_prefix + ".entry", inst, False, "no MIR for entry point")
                continue
            loc = loc_of(body)
            if ty["scheme"] is None:
                rep.undecided(rule_prefix + ".layout", inst, "type name does not identify scheme/variant", loc)
                continue
            paths, err = run_entry(fb, cr, body, False)
            if paths is None:
                rep.undecided(rule_prefix + ".layout", inst, err, loc)
                continue
            try:
                errp, okp = classify(paths)
                check_gate(rep, rule_prefix, inst, errp, okp, loc, False)
                ivname = "self.iv"
                T.declare_var("in", K * BS + D)
                if ty["scheme"] == "cbc":
                    T.declare_var(ivname, BS)
                seen_cases = set()
                for p in okp:
                    for cname, kc in CASES:
                        r = refine(p, kc)
                        if r is None:
                            continue
                        F, lenv = r
                        dc = dcase(F)
                        if dc is None:
                            rep.undecided(rule_prefix + ".layout", inst + "/" + cname, "path does not decide whether the tail is empty", loc)
                            continue
                        case = "%s,%s" % (cname, dc)
                        got = T.bnorm(T.bsubst(out_cell(p, False), {}, lenv, F) if lenv else out_cell(p, False), F)
                        kk = lin(kc) if kc is not None else K
                        dd = ZERO if dc == "d=0" else D
                        inp = T.bvar("in", ZERO, kk * BS + dd)
                        want = S.cts_spec(ty["scheme"], ty["variant"], dir_, kk, dd, inp, T.bvar(ivname, ZERO, BS) if ty["scheme"] == "cbc" else None, F)
                        ok = T.bequal(got, want, F)
                        seen_cases.add(case)
                        rep.ob(rule_prefix + ".layout", "%s/%s" % (inst, case), ok, "whole output buffer vs SP 800-38A-addendum layout", loc, computed=T.bshow(got), expected=T.bshow(want))
                        bad = [o for o in p["oblig"] if not o["ok"]]
                        rep.ob(rule_prefix + ".no-panic", "%s/%s" % (inst, case), not bad, "; ".join("%s %s" % (o["kind"], o["detail"]) for o in bad[:3]) or "%d panic obligations discharged" % len(p["oblig"]), loc)
                for cname, _ in CASES:
                    for dc in ("d=0", "d>0"):
                        c = "%s,%s" % (cname, dc)
                        if c not in seen_cases:
                            rep.ob(rule_prefix + ".case-covered", "%s/%s" % (inst, c), False, "no accepting path covers this case", loc)
            except Undecided as e:
                rep.undecided(rule_prefix + ".layout", inst, str(e), loc)


def check_gate(rep, rule_prefix, inst, errp, okp, loc, alias):
    """rejecting path: exactly `len < block size`, returns Err, buffers untouched, no cipher call."""
    from .kernels import BS as bs
    ok = len(errp) == 1
    detail = "%d rejecting paths" % len(errp)
    if ok:
        p = errp[0]
        F = p["F"]
        # condition: k*bs + d < bs  (<=> k == 0)
        ok = F.prove_ge(bs - 1 - (K * bs + D))
        detail = "rejecting path taken under %s" % [T.cshow(c) for c in p["conds"] if c[0] in ("ge", "lt", "eq", "ne")]
        # the accepting paths must together hold exactly when len >= bs
        for q in okp:
            if not q["F"].prove_ge(K * bs + D - bs):
                ok = False
                detail = "an accepting path does not imply len >= block size"
    rep.ob(rule_prefix + ".gate.exact", inst, ok, detail, loc)
    for p in errp:
        o = p["cells"].get("in" if alias else "out")
        i = p["cells"].get("in")
        untouched = o is not None and o[0] == "bytes" and T.bequal(o[1], T.bvar("in" if alias else "out_old", ZERO, K * bs + D), p["F"])
        if not alias and i is not None:
            untouched = untouched and T.bequal(i[1], T.bvar("in", ZERO, K * bs + D), p["F"])
        ciph = [e for e in p["events"] if e[0] in ("cipher", "with_backend")]
        rep.ob(rule_prefix + ".gate.no-side-effect", inst, untouched and not ciph, "rejected call leaves the caller's buffers unmodified and makes no cipher call", loc)


def check_inplace(rep, fb, rule_prefix="alias"):
    """C12 for cts: in-place summary == buffer-to-buffer summary; no dependence on old output bytes."""
    cr, types = cts_types(fb)
    for ty in types:
        for dir_ in ("enc", "dec"):
            body = ty.get(dir_)
            inst = "cts::%s[%s]" % (ty["name"], dir_)
            if body is None:
                continue
            loc = loc_of(body)
            p1, e1 = run_entry(fb, cr, body, False)
            p2, e2 = run_entry(fb, cr, body, True)
            if p1 is None or p2 is None:
                rep.undecided(rule_prefix + ".same", inst, e1 or e2, loc)
                continue
            try:
                _, ok1 = classify(p1)
                err2, ok2 = classify(p2)
                T.declare_var("in", K * BS + D)
                check_gate(rep, rule_prefix + ".inplace", inst, err2, ok2, loc, True)
                for p in ok1:
                    for cname, kc in CASES:
                        r = refine(p, kc)
                        if r is None:
                            continue
                        F, lenv = r
                        dc = dcase(F)
                        a = T.bnorm(T.bsubst(out_cell(p, False), {}, lenv, F) if lenv else out_cell(p, False), F)
                        rep.ob(rule_prefix + ".no-old-output", "%s/%s,%s" % (inst, cname, dc), "out_old" not in T.bvars(a), "every output byte is written; none depends on the previous buffer contents", loc, computed=T.bshow(a))
                        inp = p["cells"].get("in")
                        rep.ob(rule_prefix + ".input-kept", "%s/%s,%s" % (inst, cname, dc), inp is not None and T.bequal(inp[1], T.bvar("in", ZERO, K * BS + D), F), "input buffer not modified in buffer-to-buffer form", loc)
                        # matching in-place path(s)
                        matched = False
                        for q in ok2:
                            F2 = q["F"].copy()
                            for g in F.ges:
                                F2.add_ge(g)
                            if F2.inconsistent():
                                continue
                            b = T.bnorm(T.bsubst(out_cell(q, True), {}, lenv, F2) if lenv else out_cell(q, True), F2)
                            matched = True
                            rep.ob(rule_prefix + ".same.out", "%s/%s,%s" % (inst, cname, dc), T.bequal(a, b, F2), "in-place output == buffer-to-buffer output", loc, computed=T.bshow(b), expected=T.bshow(a))
                        if not matched:
                            rep.ob(rule_prefix + ".same.out", "%s/%s,%s" % (inst, cname, dc), False, "no in-place path for this case", loc)
            except Undecided as e:
                rep.undecided(rule_prefix + ".same", inst, str(e), loc)


def check_roundtrip(rep, fb, rule_prefix="inv"):
    """C01 (iii): dec(enc(P)) == P per (k,d) case, by substitution of the encryptor's output term
    into the decryptor's summary."""
    cr, types = cts_types(fb)
    for ty in types:
        inst = "cts::%s" % ty["name"]
        if ty.get("enc") is None or ty.get("dec") is None:
            continue
        loc = loc_of(ty["dec"])
        pe, e1 = run_entry(fb, cr, ty["enc"], False)
        pd, e2 = run_entry(fb, cr, ty["dec"], False)
        if pe is None or pd is None:
            rep.undecided(rule_prefix + ".cts", inst, e1 or e2, loc)
            continue
        try:
            _, oke = classify(pe)
            _, okd = classify(pd)
            T.declare_var("in", K * BS + D)
            for p in oke:
                for cname, kc in CASES:
                    r = refine(p, kc)
                    if r is None:
                        continue
                    F, lenv = r
                    dc = dcase(F)
                    c = T.bnorm(T.bsubst(out_cell(p, False), {}, lenv, F) if lenv else out_cell(p, False), F)
                    rep.ob(rule_prefix + ".cts.length", "%s/%s,%s" % (inst, cname, dc), F.prove_eq(T.blen(c) - (K * BS + D)), "ciphertext length == message length", loc)
                    done = False
                    for q in okd:
                        F2 = q["F"].copy()
                        for g in F.ges:
                            F2.add_ge(g)
                        if F2.inconsistent():
                            continue
                        dterm = T.bsubst(out_cell(q, False), {}, lenv, F2) if lenv else out_cell(q, False)
                        back = T.bsubst(dterm, {"in": c}, None, F2)
                        done = True
                        rep.ob(rule_prefix + ".cts.roundtrip", "%s/%s,%s" % (inst, cname, dc), T.bequal(back, T.bvar("in", ZERO, K * BS + D), F2), "decrypt(encrypt(P)) normalises to P", loc, computed=T.bshow(back), expected="in")
                    if not done:
                        rep.ob(rule_prefix + ".cts.roundtrip", "%s/%s,%s" % (inst, cname, dc), False, "no decrypt path for this case", loc)
        except Undecided as e:
            rep.undecided(rule_prefix + ".cts", inst, str(e), loc)


# ---------------------------------------------------------------- helpers (bulk ECB/CBC, incl. parallel branch)
def helper_fns(fb):
    """free functions of cts that take (&B, [&mut Block,] InOutBuf<Block>): the bulk helpers."""
    cr = fb.crate("cts")
    out = []
    for b in cr.bodies:
        if b["kind"] != "fn" or "impl" in b:
            continue
        tys = [cr.types[l["ty"]] for l in b["locals"][1:b["arg_count"] + 1]]
        if tys and tys[-1]["k"] == "adt" and tys[-1]["adt"].endswith("InOutBuf") and tys[0]["k"] == "ref":
            # a buffer of BLOCKS (helpers over byte buffers are covered by the end-to-end terms)
            el = [a["ty"] for a in tys[-1].get("args", []) if "ty" in a]
            if el and cr.types[el[0]]["k"] in ("adt", "alias") and cr.types[b["locals"][0]["ty"]]["k"] == "tuple":
                out.append(b)
    return cr, out


def run_helper(fb, cr, body, count, npar, alias=False, single=True, facts=(), decomp=None):
    """run a bulk helper on `count` blocks with parallel width npar; returns single path."""
    from .interp import Interp, State, Target, vbytes, vref
    from .kernels import run_method, NPAR
    ctx = base_ctx()
    ctx.alias_len["ParBlocksSize"] = lin(npar)
    F = base_facts()
    for g in facts:
        F.add_ge(g)

    def build(ip, st):
        if decomp is not None:
            st.decomp[(lin(count), lin(npar))] = decomp
        args = []
        cells = {}
        st.heap[("A", "cipher")] = ("opaque", "B")
        args.append(vref(Target(("A", "cipher"))))
        if body["arg_count"] == 3:
            T.declare_var("iv", BS)
            st.heap[("A", "iv")] = vbytes(T.bvar("iv"))
            args.append(vref(Target(("A", "iv"))))
            cells["iv"] = ("A", "iv")
        total = lin(count) * BS
        T.declare_var("hin", total)
        T.declare_var("hout_old", total)
        st.heap[("A", "in")] = vbytes(T.bvar("hin"))
        tin = Target(("A", "in"), (("br", ZERO, total),))
        if alias:
            tout = tin
            cells["out"] = ("A", "in")
        else:
            st.heap[("A", "out")] = vbytes(T.bvar("hout_old"))
            tout = Target(("A", "out"), (("br", ZERO, total),))
            cells["out"] = ("A", "out")
        args.append(("iobuf", tin, tout, BS))
        return args, cells
    ip, paths = run_method(fb, cr, body, build, ctx, F)
    if single:
        if len(paths) != 1:
            raise Undecided("%d paths in helper %s" % (len(paths), body["path"]))
        return paths[0]
    return paths


def _par_used(p):
    kinds = []

    def walk(evs):
        for e in evs:
            if e[0] == "cipher":
                kinds.append(e[2])
            elif e[0] == "loop":
                walk(e[3])
    walk(p["events"])
    return "par" in kinds


def check_helpers(rep, fb, rule_prefix="helpers"):
    """C07 (iv) / C14: one block of each bulk helper == the mode's one-block definition; a buffer of
    two full parallel groups followed by r < n single blocks (width n and r symbolic, arbitrary
    entry state) == 2n+r successive single steps.  The group loop is executed group by group
    (literal trip count 2), so group-to-group chaining, group-to-remainder chaining and in-place
    overwriting across groups are all exercised."""
    from .kernels import NPAR
    cr, helpers = helper_fns(fb)
    if len(helpers) < 4:
        rep.ob(rule_prefix + ".discovered", "cts", False, "expected 4 bulk helpers, found %d" % len(helpers))
    for b in helpers:
        inst = "cts::" + b["path"]
        loc = loc_of(b)
        try:
            F = base_facts()
            has_iv = b["arg_count"] == 3
            one = run_helper(fb, cr, b, 1, 1)
            o1 = one["cells"]["out"][1]
            T.declare_var("hin", BS)
            # which definition?  decided from the single-step summary itself
            cands = {}
            x = T.bvar("hin", ZERO, BS)
            if has_iv:
                T.declare_var("iv", BS)
                for d in ("enc", "dec"):
                    so, sw = S.cbc(d, x, T.bvar("iv"), F)
                    cands["cbc-" + d] = (so, sw)
            else:
                cands["ecb-enc"] = (T.mkcipher("E", x, F), None)
                cands["ecb-dec"] = (T.mkcipher("D", x, F), None)
            match = None
            for nm, (so, sw) in cands.items():
                if T.bequal(o1, so, F) and (sw is None or T.bequal(one["cells"]["iv"][1], sw, F)):
                    match = nm
            rep.ob(rule_prefix + ".one-block", inst, match is not None, "single block step == %s" % (match or "none of " + ", ".join(cands)), loc, computed=T.bshow(o1))
            if match is None:
                continue
            # two full parallel groups and a remainder of r < n single blocks, width n symbolic
            R = Lin.sym("r")
            KK = NPAR * 2 + R
            hf = (R, NPAR - 1 - R)
            grps = run_helper(fb, cr, b, KK, NPAR, single=False, facts=hf, decomp=(lin(2), R))
            grps2 = run_helper(fb, cr, b, KK, NPAR, alias=True, single=False, facts=hf, decomp=(lin(2), R))
            if not any(_par_used(g) for g in grps):
                rep.ob(rule_prefix + ".par-group", inst, True, "helper has no parallel branch: strictly sequential for every width", loc)
                continue
            for gi, grp in enumerate(grps):
                Fg = grp["F"]
                tag = "par" if _par_used(grp) else "seq"
                og = grp["cells"]["out"][1]
                j = T.fresh("$hj")
                v = Lin.sym(j)
                Fj = Fg.copy()
                Fj.add_ge(v)
                Fj.add_ge(KK - 1 - v)
                T.declare_var("hin", KK * BS)
                cur = T.bslice(T.bvar("hin"), v * BS, BS, Fj)
                prev = T.bslice(T.bvar("hin"), (v - 1) * BS, BS, Fj)
                if match == "cbc-dec":
                    w = T.bnorm((("i", ("eq", v), BS, T.bvar("iv"), prev),), Fj)
                    tm = S.cbc("dec", cur, w, Fj)[0]
                    fin = T.bslice(T.bvar("hin"), (KK - 1) * BS, BS, Fg)
                elif match == "ecb-enc":
                    tm = T.mkcipher("E", cur, Fj)
                    fin = None
                elif match == "ecb-dec":
                    tm = T.mkcipher("D", cur, Fj)
                    fin = None
                else:
                    rep.ob(rule_prefix + ".par-group", inst, False, "parallel branch on a chained encryption direction", loc)
                    continue
                exp = T.bnorm((("m", j, ZERO, KK, BS, tm),), Fg)
                ok = T.bequal(og, exp, Fg)
                if fin is not None:
                    ok = ok and T.bequal(grp["cells"]["iv"][1], fin, Fg)
                rep.ob(rule_prefix + ".par-group", "%s/%s" % (inst, tag), ok, "two groups of n blocks + r < n single blocks (n, r symbolic, %s path) == 2n+r successive single steps" % tag, loc, computed=T.bshow(og), expected=T.bshow(exp))
                bad = [o for o in grp["oblig"] if not o["ok"]]
                rep.ob(rule_prefix + ".no-panic", "%s/%s" % (inst, tag), not bad, "; ".join("%s %s" % (o["kind"], o["detail"]) for o in bad[:3]) or "%d panic obligations discharged" % len(grp["oblig"]), loc)
                for g2 in grps2:
                    if _par_used(g2) == _par_used(grp):
                        rep.ob(rule_prefix + ".par-group.inplace", "%s/%s" % (inst, tag), T.bequal(g2["cells"]["out"][1], og, g2["F"]), "group processed in place == buffer to buffer", loc)
        except Undecided as e:
            rep.undecided(rule_prefix + ".one-block", inst, str(e), loc)


def check_b2b(rep, fb, rule_prefix="b2b"):
    """C13: encrypt_b2b / decrypt_b2b reach *_inout only through Ok of InOutBuf::new; unequal
    lengths return Err before any write.  Decided on the provided trait methods' MIR."""
    from . import cfg as G
    cr = fb.crate("cts")
    found = 0
    for b in cr.bodies:
        if b.get("in_trait") and b["name"] in ("encrypt_b2b", "decrypt_b2b"):
            found += 1
            inst = "cts::" + b["path"]
            cl = list(G.calls(b))
            names = [fn["name"] for i, t, fn in cl]
            # structure: InOutBuf::new is called first and every other call (the Result plumbing, the
            # *_inout call or the combinator receiving the closure that makes it) is dominated by it;
            # what those calls do is decided by the interpreted rules b2b.reject / b2b.accept
            dom = G.dominators(b)
            def makes_pair(fn, depth=0):
                """InOutBuf::new itself, or a private helper of the crate whose own first call is it
                (the pairing moved into `fn pair_buffers(..) -> Result<InOutBuf, Error>`)."""
                if fn["name"] == "new" and "InOutBuf" in fn.get("path", ""):
                    return True
                hb = cr.by_path.get(fn.get("path")) if depth < 2 else None
                if hb is None or hb.get("in_trait") or hb.get("impl_trait"):
                    return False
                hcl = list(G.calls(hb))
                hdom = G.dominators(hb)
                hn = [i for i, t, f2 in hcl if makes_pair(f2, depth + 1)]
                return len(hn) == 1 and all(i == hn[0] or hn[0] in hdom.get(i, ()) for i, t, f2 in hcl)
            news = [i for i, t, fn in cl if makes_pair(fn)]
            ok = len(news) == 1 and all(i == news[0] or news[0] in dom.get(i, ()) for i, t, fn in cl)
            rep.ob(rule_prefix + ".through-new", inst, ok, "calls: %s (every call is dominated by the single InOutBuf::new)" % names, loc_of(b))
            # the closures
            for c in cr.bodies:
                if c["kind"] == "closure" and c["path"].startswith(b["path"]):
                    cn = [fn["name"] for i, t, fn in G.calls(c)]
                    rep.ob(rule_prefix + ".closure", "cts::" + c["path"], set(cn) <= {"encrypt_inout", "decrypt_inout"}, "closure calls %s" % cn, loc_of(c))
    # InOutBuf::new itself (T1, analysed): Err iff lengths differ, no write
    rep.ob(rule_prefix + ".found", "cts", found == 2, "%d provided *_b2b methods found" % found)


# ---------------------------------------------------------------- constructors and provided wrappers
def check_constructors(rep, fb, rule_prefix="cts.init"):
    """inner_iv_init / inner_init store exactly the given IV and cipher (the end-to-end terms are
    expressed over the stored IV, so this closes the gap to the user-visible constructor)."""
    from .modes import impl_for
    cr, types = cts_types(fb)
    for ty in types:
        inst = "cts::" + ty["name"]
        try:
            im = impl_for(cr, "InnerIvInit", ty["adt"]) or impl_for(cr, "InnerInit", ty["adt"])
            if im is None:
                rep.ob(rule_prefix, inst, False, "no InnerIvInit/InnerInit impl")
                continue
            b = method_body(cr, im, "inner_iv_init") or method_body(cr, im, "inner_init")
            ip, ps = run_plain(fb, cr, b, ["c", "IV"], cts_ctx(), base_facts())
            if len(ps) != 1:
                raise Undecided("%d paths" % len(ps))
            r = ps[0]["ret"]
            ok = r[0] == "struct" and r[2].get("cipher") == ("opaque", "C") or (r[0] == "struct" and r[2].get("cipher", ("x",))[0] == "opaque")
            if im["trait_name"] == "InnerIvInit":
                T.declare_var("IV", BS)
                ivf = [v for k, v in r[2].items() if v[0] == "bytes"]
                ok = ok and len(ivf) == 1 and T.bequal(ivf[0][1], T.bvar("IV"), ps[0]["F"])
            else:
                ok = ok and not [v for v in r[2].values() if v[0] == "bytes"]
            rep.ob(rule_prefix, inst, ok, "constructor stores the given cipher%s unchanged" % (" and IV" if im["trait_name"] == "InnerIvInit" else ""), loc_of(b), computed=show_value(r))
        except (Undecided, KeyError) as e:
            rep.undecided(rule_prefix, inst, str(e))


def check_wrappers(rep, fb, rule_prefix="b2b"):
    """C13: the provided `encrypt`/`decrypt` (in place) and `*_b2b` wrappers, interpreted with Self
    bound to each cts type: a call is rejected (Err, buffers untouched, no cipher call) exactly when
    the lengths differ or the message is shorter than one block; otherwise every output byte is written."""
    cr, types = cts_types(fb)
    trait_bodies = {}
    for b in cr.bodies:
        if b.get("in_trait") and b["name"] in ("encrypt", "decrypt", "encrypt_b2b", "decrypt_b2b"):
            trait_bodies[b["name"]] = b
    if len(trait_bodies) != 4:
        rep.ob(rule_prefix + ".found", "cts", False, "provided wrapper methods found: %s" % sorted(trait_bodies))
        return
    for ty in types:
        for dir_, tname in (("enc", "Encrypt"), ("dec", "Decrypt")):
            im = None
            for i2 in cr.impls:
                if i2.get("trait_name") == tname and i2.get("self_adt") == ty["adt"]:
                    im = i2
            if im is None:
                continue
            for meth in (("encrypt" if dir_ == "enc" else "decrypt"), ("encrypt_b2b" if dir_ == "enc" else "decrypt_b2b")):
                b = trait_bodies[meth]
                inst = "cts::%s::%s" % (ty["name"], meth)
                is_b2b = meth.endswith("b2b")
                la = K * BS + D
                # lengths: equal; and for b2b also output longer / shorter than the input
                variants = [("equal", la, ())]
                if is_b2b:
                    lo_s = Lin.sym("o.len")
                    variants += [("longer", lo_s, (lo_s - la - 1,)), ("shorter", lo_s, (la - lo_s - 1, lo_s))]
                try:
                    n_ok = n_err = 0
                    for vname, lo_, extra in variants:
                        ctx = cts_ctx()
                        ctx.trait_impl = {im["trait"]: (cr, im)}
                        ctx.extra[("slice_len", "a")] = la
                        ctx.extra[("slice_len", "o")] = lo_
                        F = base_facts()
                        F.add_ge(K)
                        F.add_ge(D)
                        F.add_ge(BS - 1 - D)
                        for g in extra:
                            F.add_ge(g)
                        from .kernels import abstract_value, run_method

                        def build(ip, st, b=b, im=im):
                            st.decomp[(la, BS)] = (K, D)
                            selfv = abstract_value(ip, cr, st, im["self_ty"], "self")
                            args = [selfv]
                            for i in range(2, b["arg_count"] + 1):
                                nm = {2: "a", 3: "o"}[i] if b["arg_count"] == 3 else "a"
                                args.append(abstract_value(ip, cr, st, b["locals"][i]["ty"], nm))
                            return args, {c[1]: c for c in st.heap if c[0] == "A"}
                        ip, paths = run_method(fb, cr, b, build, ctx, F)
                        outname = "o" if is_b2b else "a"
                        T.declare_var("a", la)
                        T.declare_var("o", lo_)
                        for p in paths:
                            r = p["ret"]
                            Fp = p["F"]
                            if r[0] != "enum":
                                raise Undecided("wrapper returns %s" % r[0])
                            out = p["cells"][outname][1]
                            ciph = [e for e in p["events"] if e[0] in ("cipher", "with_backend")]
                            if r[3] == "Err":
                                n_err += 1
                                untouched = T.bequal(out, T.bvar(outname, ZERO, lo_ if is_b2b else la), Fp)
                                if is_b2b:
                                    untouched = untouched and T.bequal(p["cells"]["a"][1], T.bvar("a", ZERO, la), Fp)
                                violated = Fp.prove_ge(BS - 1 - la) or vname != "equal"
                                rep.ob(rule_prefix + ".reject", "%s/%s/%s" % (inst, vname, "short" if Fp.prove_ge(BS - 1 - la) else "len"), untouched and not ciph and violated,
                                       "rejected only for a contract violation; buffers untouched; no cipher call", loc_of(b))
                            else:
                                n_ok += 1
                                good = vname == "equal" and Fp.prove_ge(la - BS) and len([e for e in ciph if e[0] == "with_backend"]) == 1
                                if is_b2b:
                                    good = good and "o" not in T.bvars(out)
                                rep.ob(rule_prefix + ".accept", "%s/%s/%d" % (inst, vname, n_ok), good, "accepted only with equal lengths >= one block; %sone pass through the cipher" % ("every output byte written; " if is_b2b else ""), loc_of(b))
                    rep.ob(rule_prefix + ".paths", inst, n_ok >= 1 and n_err >= (3 if is_b2b else 1), "%d accepting and %d rejecting paths over %d length relations" % (n_ok, n_err, len(variants)), loc_of(b))
                except (Undecided, KeyError, IndexError) as e:
                    rep.undecided(rule_prefix + ".wrapper", inst, str(e), loc_of(b))
