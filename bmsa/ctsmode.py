"""Ciphertext stealing (cts crate): end-to-end summaries of the 12 entry points per
(k, d) case against the SP 800-38A addendum layout, gates, in-place equivalence,
round trip, helper functions."""
import re

from .lin import Lin, lin, ZERO, ONE
from . import terms as T
from .terms import Undecided
from . import specs as S
from .modes import method_body, run_plain, show_value
from .kernels import BS, NPAR, base_ctx, base_facts
from .report import loc_of

K = Lin.sym("k")
D = Lin.sym("d")

_cache = {}


def cts_ctx():
    c = base_ctx()
    c.alias_len["ParBlocksSize"] = ONE     # end-to-end terms are computed for width 1; wider backends: see check_helpers
    return c


def cts_types(fb):
    """(adt path, scheme, variant, enc body, dec body) discovered through the Encrypt/Decrypt traits of the crate."""
    cr = fb.crate("cts")
    out = {}
    for im in cr.impls:
        tn = im.get("trait_name")
        if tn in ("Encrypt", "Decrypt") and im.get("trait_krate") == "cts" and im.get("self_adt"):
            adt = im["self_adt"]
            nm = adt.split("::")[-1]
            m = re.match(r"(Cbc|Ecb)Cs([123])$", nm)
            ent = out.setdefault(adt, {"adt": adt, "name": nm, "scheme": m.group(1).lower() if m else None, "variant": int(m.group(2)) if m else None})
            ent["enc" if tn == "Encrypt" else "dec"] = method_body(cr, im, "encrypt_inout" if tn == "Encrypt" else "decrypt_inout")
    return cr, [out[k] for k in sorted(out)]


def run_entry(fb, cr, body, alias):
    key = (id(fb), body["path"], alias)
    if key not in _cache:
        try:
            ip, paths = run_plain(fb, cr, body, ["self", "buf"], cts_ctx(), base_facts(), alias=alias)
            _cache[key] = (paths, None)
        except Undecided as e:
            _cache[key] = (None, str(e))
    return _cache[key]


def classify(paths):
    """split paths into the rejecting path(s) and accepting paths."""
    err, ok = [], []
    for p in paths:
        r = p["ret"]
        if r[0] == "enum" and r[3] == "Err":
            err.append(p)
        elif r[0] == "enum" and r[3] == "Ok":
            ok.append(p)
        else:
            raise Undecided("entry point returns %s" % (r[0],))
    return err, ok


CASES = [("k=1", 1), ("k=2", 2), ("k>=3", None)]


def refine(p, kcase):
    """facts of path p specialised to a k case; returns (F, lenv) or None if infeasible."""
    F = p["F"].copy()
    lenv = {}
    if kcase is None:
        F.add_ge(K - 3)
    else:
        F.add_eq(K - kcase)
        lenv = {"k": lin(kcase)}
    F.saturate({"k", "d"})
    if F.inconsistent():
        return None
    return F, lenv


def out_cell(p, alias):
    v = p["cells"].get("in" if alias else "out")
    if v is None or v[0] != "bytes":
        raise Undecided("no output buffer in summary")
    return v[1]


def dcase(F):
    if F.prove_eq(D):
        return "d=0"
    if F.prove_ge(D - 1):
        return "d>0"
    return None


def check_layout(rep, fb, rule_prefix="cts"):
    """C05: output of every entry point per (k,d) case == addendum layout; gate exact."""
    cr, types = cts_types(fb)
    for ty in types:
        for dir_ in ("enc", "dec"):
            body = ty.get(dir_)
            inst = "cts::%s[%s]" % (ty["name"], dir_)
            if body is None:
                rep.ob(rule_prefix + ".entry", inst, False, "no MIR for entry point")
                continue
            loc = loc_of(body)
            if ty["scheme"] is None:
                rep.undecided(rule_prefix + ".layout", inst, "type name does not identify scheme/variant", loc)
                continue
            paths, err = run_entry(fb, cr, body, False)
            if paths is None:
                rep.undecided(rule_prefix + ".layout", inst, err, loc)
                continue
            try:
                errp, okp = classify(paths)
                check_gate(rep, rule_prefix, inst, errp, okp, loc, False)
                ivname = "self.iv"
                T.declare_var("in", K * BS + D)
                if ty["scheme"] == "cbc":
                    T.declare_var(ivname, BS)
                seen_cases = set()
                for p in okp:
                    for cname, kc in CASES:
                        r = refine(p, kc)
                        if r is None:
                            continue
                        F, lenv = r
                        dc = dcase(F)
                        if dc is None:
                            rep.undecided(rule_prefix + ".layout", inst + "/" + cname, "path does not decide whether the tail is empty", loc)
                            continue
                        case = "%s,%s" % (cname, dc)
                        got = T.bnorm(T.bsubst(out_cell(p, False), {}, lenv, F) if lenv else out_cell(p, False), F)
                        kk = lin(kc) if kc is not None else K
                        dd = ZERO if dc == "d=0" else D
                        inp = T.bvar("in", ZERO, kk * BS + dd)
                        want = S.cts_spec(ty["scheme"], ty["variant"], dir_, kk, dd, inp, T.bvar(ivname, ZERO, BS) if ty["scheme"] == "cbc" else None, F)
                        ok = T.bequal(got, want, F)
                        seen_cases.add(case)
                        rep.ob(rule_prefix + ".layout", "%s/%s" % (inst, case), ok, "whole output buffer vs SP 800-38A-addendum layout", loc, computed=T.bshow(got), expected=T.bshow(want))
                        bad = [o for o in p["oblig"] if not o["ok"]]
                        rep.ob(rule_prefix + ".no-panic", "%s/%s" % (inst, case), not bad, "; ".join("%s %s" % (o["kind"], o["detail"]) for o in bad[:3]) or "%d panic obligations discharged" % len(p["oblig"]), loc)
                for cname, _ in CASES:
                    for dc in ("d=0", "d>0"):
                        c = "%s,%s" % (cname, dc)
                        if c not in seen_cases:
                            rep.ob(rule_prefix + ".case-covered", "%s/%s" % (inst, c), False, "no accepting path covers this case", loc)
            except Undecided as e:
                rep.undecided(rule_prefix + ".layout", inst, str(e), loc)


def check_gate(rep, rule_prefix, inst, errp, okp, loc, alias):
    """rejecting path: exactly `len < block size`, returns Err, buffers untouched, no cipher call."""
    from .kernels import BS as bs
    ok = len(errp) == 1
    detail = "%d rejecting paths" % len(errp)
    if ok:
        p = errp[0]
        F = p["F"]
        # condition: k*bs + d < bs  (<=> k == 0)
        ok = F.prove_ge(bs - 1 - (K * bs + D))
        detail = "rejecting path taken under %s" % [T.cshow(c) for c in p["conds"] if c[0] in ("ge", "lt", "eq", "ne")]
        # the accepting paths must together hold exactly when len >= bs
        for q in okp:
            if not q["F"].prove_ge(K * bs + D - bs):
                ok = False
                detail = "an accepting path does not imply len >= block size"
    rep.ob(rule_prefix + ".gate.exact", inst, ok, detail, loc)
    for p in errp:
        o = p["cells"].get("in" if alias else "out")
        i = p["cells"].get("in")
        untouched = o is not None and o[0] == "bytes" and T.bequal(o[1], T.bvar("in" if alias else "out_old", ZERO, K * bs + D), p["F"])
        if not alias and i is not None:
            untouched = untouched and T.bequal(i[1], T.bvar("in", ZERO, K * bs + D), p["F"])
        ciph = [e for e in p["events"] if e[0] in ("cipher", "with_backend")]
        rep.ob(rule_prefix + ".gate.no-side-effect", inst, untouched and not ciph, "rejected call leaves the caller's buffers unmodified and makes no cipher call", loc)


def check_inplace(rep, fb, rule_prefix="alias"):
    """C12 for cts: in-place summary == buffer-to-buffer summary; no dependence on old output bytes."""
    cr, types = cts_types(fb)
    for ty in types:
        for dir_ in ("enc", "dec"):
            body = ty.get(dir_)
            inst = "cts::%s[%s]" % (ty["name"], dir_)
            if body is None:
                continue
            loc = loc_of(body)
            p1, e1 = run_entry(fb, cr, body, False)
            p2, e2 = run_entry(fb, cr, body, True)
            if p1 is None or p2 is None:
                rep.undecided(rule_prefix + ".same", inst, e1 or e2, loc)
                continue
            try:
                _, ok1 = classify(p1)
                err2, ok2 = classify(p2)
                T.declare_var("in", K * BS + D)
                check_gate(rep, rule_prefix + ".inplace", inst, err2, ok2, loc, True)
                for p in ok1:
                    for cname, kc in CASES:
                        r = refine(p, kc)
                        if r is None:
                            continue
                        F, lenv = r
                        dc = dcase(F)
                        a = T.bnorm(T.bsubst(out_cell(p, False), {}, lenv, F) if lenv else out_cell(p, False), F)
                        rep.ob(rule_prefix + ".no-old-output", "%s/%s,%s" % (inst, cname, dc), "out_old" not in T.bvars(a), "every output byte is written; none depends on the previous buffer contents", loc, computed=T.bshow(a))
                        inp = p["cells"].get("in")
                        rep.ob(rule_prefix + ".input-kept", "%s/%s,%s" % (inst, cname, dc), inp is not None and T.bequal(inp[1], T.bvar("in", ZERO, K * BS + D), F), "input buffer not modified in buffer-to-buffer form", loc)
                        # matching in-place path(s)
                        matched = False
                        for q in ok2:
                            F2 = q["F"].copy()
                            for g in F.ges:
                                F2.add_ge(g)
                            if F2.inconsistent():
                                continue
                            b = T.bnorm(T.bsubst(out_cell(q, True), {}, lenv, F2) if lenv else out_cell(q, True), F2)
                            matched = True
                            rep.ob(rule_prefix + ".same.out", "%s/%s,%s" % (inst, cname, dc), T.bequal(a, b, F2), "in-place output == buffer-to-buffer output", loc, computed=T.bshow(b), expected=T.bshow(a))
                        if not matched:
                            rep.ob(rule_prefix + ".same.out", "%s/%s,%s" % (inst, cname, dc), False, "no in-place path for this case", loc)
            except Undecided as e:
                rep.undecided(rule_prefix + ".same", inst, str(e), loc)


def check_roundtrip(rep, fb, rule_prefix="inv"):
    """C01 (iii): dec(enc(P)) == P per (k,d) case, by substitution of the encryptor's output term
    into the decryptor's summary."""
    cr, types = cts_types(fb)
    for ty in types:
        inst = "cts::%s" % ty["name"]
        if ty.get("enc") is None or ty.get("dec") is None:
            continue
        loc = loc_of(ty["dec"])
        pe, e1 = run_entry(fb, cr, ty["enc"], False)
        pd, e2 = run_entry(fb, cr, ty["dec"], False)
        if pe is None or pd is None:
            rep.undecided(rule_prefix + ".cts", inst, e1 or e2, loc)
            continue
        try:
            _, oke = classify(pe)
            _, okd = classify(pd)
            T.declare_var("in", K * BS + D)
            for p in oke:
                for cname, kc in CASES:
                    r = refine(p, kc)
                    if r is None:
                        continue
                    F, lenv = r
                    dc = dcase(F)
                    c = T.bnorm(T.bsubst(out_cell(p, False), {}, lenv, F) if lenv else out_cell(p, False), F)
                    rep.ob(rule_prefix + ".cts.length", "%s/%s,%s" % (inst, cname, dc), F.prove_eq(T.blen(c) - (K * BS + D)), "ciphertext length == message length", loc)
                    done = False
                    for q in okd:
                        F2 = q["F"].copy()
                        for g in F.ges:
                            F2.add_ge(g)
                        if F2.inconsistent():
                            continue
                        dterm = T.bsubst(out_cell(q, False), {}, lenv, F2) if lenv else out_cell(q, False)
                        back = T.bsubst(dterm, {"in": c}, None, F2)
                        done = True
                        rep.ob(rule_prefix + ".cts.roundtrip", "%s/%s,%s" % (inst, cname, dc), T.bequal(back, T.bvar("in", ZERO, K * BS + D), F2), "decrypt(encrypt(P)) normalises to P", loc, computed=T.bshow(back), expected="in")
                    if not done:
                        rep.ob(rule_prefix + ".cts.roundtrip", "%s/%s,%s" % (inst, cname, dc), False, "no decrypt path for this case", loc)
        except Undecided as e:
            rep.undecided(rule_prefix + ".cts", inst, str(e), loc)
