"""Primitive-effect table (trusted base T1): abstract effect of the functions of
inout / hybrid-array / cipher / core that the workspace kernels call.  Each entry
was written from the dependency source at the versions pinned in facts.PINNED.
"""
from .lin import Lin, lin, ZERO, ONE, neg_cond
from . import terms as T
from .terms import Undecided
from .interp import Target, vunit, vsize, vbool, vbytes, vint, vref, vstruct, venum, vsome, vnone

TABLE = []       # (matcher(path, resolved_path) -> bool, handler, name)
USED = set()


def prim(*suffixes, resolved=None):
    def deco(f):
        TABLE.append((suffixes, resolved, f))
        return f
    return deco


def _norm(p):
    """strip "::<...>" generic-argument groups: cipher::InOut::<'inp, 'out, T>::clone_in -> cipher::InOut::clone_in"""
    out = []
    i = 0
    n = len(p)
    while i < n:
        if p.startswith("::<", i):
            depth = 0
            j = i + 2
            while j < n:
                if p[j] == "<":
                    depth += 1
                elif p[j] == ">":
                    depth -= 1
                    if depth == 0:
                        break
                j += 1
            i = j + 1
            continue
        out.append(p[i])
        i += 1
    return "".join(out)


_cache = {}


def dispatch(ip, st, ci):
    fn = ci["fn"]
    p = fn["path"]
    rp = fn.get("resolved", {}).get("path", "")
    key = (p, rp)
    h = _cache.get(key)
    if h is None:
        h = False
        np_, nrp = _norm(p), _norm(rp)
        for suffixes, resolved, f in TABLE:
            if any(np_.endswith(s) or p.endswith(s) for s in suffixes):
                if resolved is None or any(r in rp or r in nrp for r in resolved):
                    h = f
                    break
        _cache[key] = h
    if not h:
        return None
    USED.add(h.__name__)
    r = h(ip, st, ci)
    if r is None:
        return None
    if isinstance(r, list):
        return r
    return [(st, r)]


# ---------------------------------------------------------------- helpers
def tg_of(v, what="argument"):
    if v[0] != "ref":
        raise Undecided("%s is %s, expected a reference" % (what, v[0]))
    return v[1]


def fn_targs(ci):
    return [a["ty"] for a in ci["fn"]["args"] if "ty" in a]


def dest_ty(ip, ci):
    return ip.place_ty(ci["fr"], ci["term"]["dest"])


def crate(ci):
    return ci["fr"].crate


def oblig(st, ci, kind, ok, detail):
    st.oblig.append({"kind": kind, "fn": ci["fr"].body["path"], "crate": ci["fr"].crate.name, "ok": bool(ok), "detail": detail, "span": ci["term"]["span"]})


def count_of(st, nbytes, esz):
    q = lin(nbytes).div_sym(esz)
    if q is None:
        q = st.F.canon(nbytes).div_sym(esz)
    if q is None:
        dec = st.decomp.get((lin(nbytes), lin(esz)))
        if dec and st.F.prove_eq(dec[1]):
            return dec[0]
        raise Undecided("length %r is not a multiple of element size %r" % (nbytes, esz))
    return q


def decompose(st, total, chunk):
    """total = k*chunk + d, 0 <= d < chunk; memoised per state."""
    total = st.F.canon(lin(total))
    chunk = lin(chunk)
    key = (total, chunk)
    if key in st.decomp:
        return st.decomp[key]
    q = total.div_sym(chunk)
    if q is not None:
        st.decomp[key] = (q, ZERO)
        return q, ZERO
    # total = known decomposition minus/plus whole chunks?
    for (t2, c2), (k2, d2) in list(st.decomp.items()):
        if c2 == chunk:
            diff = (total - t2).div_sym(chunk)
            if diff is not None:
                st.decomp[key] = (k2 + diff, d2)
                return st.decomp[key]
    off = decompose_offset(st, total, chunk)
    if off is not None and off[0] is None:
        st.decomp[key] = (off[1], off[2])
        return st.decomp[key]
    k = Lin.sym(T.fresh("k"))
    d = Lin.sym(T.fresh("d"))
    # definitional equality: if the total contains a plain symbol with coefficient +-1 (a length
    # variable), later forms are canonicalised by replacing it with its decomposition
    gen = st.F.rewrites.setdefault("__generated__", set())
    gen.update((k.t[0][0][0], d.t[0][0][0]))
    for m, co in total.t:
        if len(m) == 1 and co in (1, -1) and m[0] not in st.F.rewrites and not m[0].startswith("$") and m[0] not in chunk.symbols() and m[0] not in gen:
            rest = total - Lin(0, ((m, co),))
            st.F.rewrites[m[0]] = (k * chunk + d - rest) * co
            break
    st.F.add_eq(total - k * chunk - d)
    st.F.add_ge(k)
    st.F.add_ge(d)
    st.F.add_ge(chunk - 1 - d)
    st.F.saturate()
    st.decomp[key] = (k, d)
    return k, d


def decompose_offset(st, total, chunk):
    """total = (known t2 = k2*chunk + d2) + q*chunk + r with r a constant: the quotient is k2 + q
    when 0 <= d2 + r < chunk, one less / more after a borrow / carry.  Returns (None, k, d) when the
    facts decide, (cond, (k, d), (k', d')) when it hinges on `cond` = no borrow / no carry, else None."""
    total = st.F.canon(lin(total))
    chunk = lin(chunk)
    for (t2, c2), (k2, d2) in list(st.decomp.items()):
        if c2 != chunk:
            continue
        delta = total - t2
        r = delta.c
        q = (delta - r).div_sym(chunk)
        if q is None or r == 0:
            continue
        d = d2 + r
        F = st.F
        if F.prove_ge(d) and F.prove_ge(chunk - 1 - d):
            return (None, k2 + q, d)
        if r < 0 and F.prove_ge(chunk + d):
            if F.prove_ge(-d - 1):
                return (None, k2 + q - 1, d + chunk)
            if F.prove_ge(chunk - 1 - d):
                return (("ge", d), (k2 + q, d), (k2 + q - 1, d + chunk))
        if r > 0 and F.prove_ge(2 * chunk - 1 - d) and F.prove_ge(d):
            if F.prove_ge(d - chunk):
                return (None, k2 + q + 1, d - chunk)
            return (("lt", d - chunk), (k2 + q, d), (k2 + q + 1, d - chunk))
    return None


def fork_on(st, cond):
    """returns [(state, True)], [(state, False)] or both depending on what the facts decide."""
    if st.F.prove_cond(cond):
        st.F.add_cond(cond)      # entailed: keep it as an explicit row for the product lemmas
        return [(st, True)]
    if st.F.refute_cond(cond):
        st.F.add_cond(neg_cond(cond))
        return [(st, False)]
    s1 = st.fork()
    s1.assume(cond)
    st.assume(neg_cond(cond))
    out = []
    if not s1.F.inconsistent():
        out.append((s1, True))
    if not st.F.inconsistent():
        out.append((st, False))
    return out


def bs_len(ip):
    return ip.ctx.alias_len["BlockSize"]


# ---------------------------------------------------------------- InOut
def mk_inout(i, o):
    return ("inout", i, o)


@prim("InOut::clone_in")
def inout_clone_in(ip, st, ci):
    io = ip.load(st, tg_of(ci["args"][0]))
    st.events.append(("read_in", io[1].key()))
    return ip.load(st, io[1])


@prim("InOut::get_in")
def inout_get_in(ip, st, ci):
    io = ip.load(st, tg_of(ci["args"][0]))
    return vref(io[1])


@prim("InOut::get_out")
def inout_get_out(ip, st, ci):
    io = ip.load(st, tg_of(ci["args"][0]))
    return vref(io[2])


@prim("InOut::reborrow")
def inout_reborrow(ip, st, ci):
    return ip.load(st, tg_of(ci["args"][0]))


@prim("InOut::get")
def inout_get(ip, st, ci):
    io = ip.load(st, tg_of(ci["args"][0]))
    pos = ci["args"][1]
    if pos[0] != "size":
        raise Undecided("InOut::get index")
    t = crate(ci).types[fn_targs(ci)[0]] if fn_targs(ci) else None
    # element type = T of InOut<Array<T, N>>; element size from the destination InOut<T>
    dt = crate(ci).types[dest_ty(ip, ci)]
    et = [a["ty"] for a in dt["args"] if "ty" in a][0]
    esz = ip.sizeof(crate(ci), et)
    total = ip.tlen(st, io[1])
    ok = st.F.prove_ge(pos[1]) and st.F.prove_ge(total - (pos[1] + 1) * esz)
    oblig(st, ci, "bounds:InOut::get", ok, "%r < %r/%r" % (pos[1], total, esz))
    return mk_inout(ip.br(io[1], pos[1] * esz, esz), ip.br(io[2], pos[1] * esz, esz))


@prim("InOut::xor_in2out")
def inout_xor_in2out(ip, st, ci):
    io = ip.load(st, tg_of(ci["args"][0]))
    data = ip.load(st, tg_of(ci["args"][1]))
    inp = ip.load(st, io[1])
    st.events.append(("read_in", io[1].key()))
    ip.store(st, io[2], vbytes(T.bxor(inp[1], data[1], st.F)))
    return vunit()


def _into_inout(ip, st, ci, v):
    if v[0] == "ref":
        return mk_inout(v[1], v[1])
    if v[0] == "tuple" and len(v[1]) == 2:
        return mk_inout(tg_of(v[1][0]), tg_of(v[1][1]))
    raise Undecided("conversion of %s into InOut" % v[0])


@prim("convert::Into::into", "convert::From::from")
def conv_into(ip, st, ci):
    v = ci["args"][0]
    dt = crate(ci).types[dest_ty(ip, ci)]
    if dt["k"] == "adt" and dt["adt"].endswith("InOut"):
        return _into_inout(ip, st, ci, v)
    if dt["k"] == "adt" and dt["adt"].endswith("InOutBuf"):
        tg = tg_of(v)
        et = [a["ty"] for a in dt["args"] if "ty" in a][0]
        return ("iobuf", tg, tg, ip.sizeof(crate(ci), et))
    if v[0] == "bytes" and ip.is_bytes_ty(crate(ci), dest_ty(ip, ci)):
        return v
    if v[0] == "bool" and dt["k"] == "uint":
        c = v[1]
        if c in (("true",), ("false",)):
            n_ = 1 if c == ("true",) else 0
            return vsize(n_) if dt["name"] == "usize" else vint(T.iconst(int(dt["name"][1:]), n_))
        if c[0] in ("ge", "lt", "eq", "ne") and dt["name"] == "usize":
            return [(s2, vsize(1 if yes else 0)) for s2, yes in fork_on(st, c)]
        raise Undecided("integer from an undecided bool")
    if v[0] == "bytes" and dt["k"] == "uint" and dt["name"] not in ("usize",) and T.blen(v[1]) == ONE:
        v = vint(T.ifrombytes("le", 8, v[1], st.F))      # a u8 held as one byte
    if v[0] == "int" and dt["k"] == "uint" and dt["name"] not in ("usize",):
        # lossless widening From<uN> for uM: the same uninterpreted function as an `as` cast
        w = int(dt["name"][1:])
        if w == v[1][1]:
            return v
        if w > v[1][1]:
            if not v[1][3]:
                return vint(T.iconst(w, v[1][2]))
            return vint(T.ifn(w, "cast_u%d_to_u%d" % (v[1][1], w), v[1]))
    raise Undecided("Into::into from %s to %s" % (v[0], dt["s"]))


# ---------------------------------------------------------------- InOutBuf
def iob(ip, st, v):
    if v[0] == "ref":
        v = ip.load(st, v[1])
    if v[0] != "iobuf":
        raise Undecided("expected InOutBuf, got %s" % v[0])
    return v


@prim("InOutBuf::len")
def iobuf_len(ip, st, ci):
    b = iob(ip, st, ci["args"][0])
    return vsize(count_of(st, ip.tlen(st, b[1]), b[3]))


@prim("InOutBuf::is_empty")
def iobuf_is_empty(ip, st, ci):
    b = iob(ip, st, ci["args"][0])
    return vbool(("eq", count_of(st, ip.tlen(st, b[1]), b[3])))


@prim("InOutBuf::get_in")
def iobuf_get_in(ip, st, ci):
    return vref(iob(ip, st, ci["args"][0])[1])


@prim("InOutBuf::get_out")
def iobuf_get_out(ip, st, ci):
    return vref(iob(ip, st, ci["args"][0])[2])


@prim("InOutBuf::reborrow")
def iobuf_reborrow(ip, st, ci):
    return iob(ip, st, ci["args"][0])


@prim("InOutBuf::split_at")
def iobuf_split_at(ip, st, ci):
    b = iob(ip, st, ci["args"][0])
    mid = ci["args"][1]
    if mid[0] != "size":
        raise Undecided("split_at mid")
    total = ip.tlen(st, b[1])
    m = mid[1] * b[3]
    ok = st.F.prove_ge(mid[1]) and st.F.prove_ge(total - m)
    oblig(st, ci, "bounds:InOutBuf::split_at", ok, "%r <= %r" % (m, total))
    if not ok:
        st.F.add_ge(mid[1])
        st.F.add_ge(total - m)
    l = ("iobuf", ip.br(b[1], ZERO, m), ip.br(b[2], ZERO, m), b[3])
    r = ("iobuf", ip.br(b[1], m, total - m), ip.br(b[2], m, total - m), b[3])
    return ("tuple", [l, r])


@prim("InOutBuf::into_chunks")
def iobuf_into_chunks(ip, st, ci):
    b = iob(ip, st, ci["args"][0])
    # N = last type argument of the method
    targs = fn_targs(ci)
    nlen = ip.tn_lin(crate(ci), targs[-1])
    chunk = nlen * b[3]
    total = ip.tlen(st, b[1])
    cnt = count_of(st, total, b[3])
    k, r = decompose(st, cnt, nlen)
    d = r * b[3]
    blocks = ("iobuf", ip.br(b[1], ZERO, k * chunk), ip.br(b[2], ZERO, k * chunk), chunk)
    tail = ("iobuf", ip.br(b[1], k * chunk, d), ip.br(b[2], k * chunk, d), b[3])
    return ("tuple", [blocks, tail])


@prim("InOutBuf::new")
def iobuf_new(ip, st, ci):
    a = tg_of(ci["args"][0])
    o = tg_of(ci["args"][1])
    la, lo = ip.tlen(st, a), ip.tlen(st, o)
    dt = crate(ci).types[dest_ty(ip, ci)]
    out = []
    for s2, eq in fork_on(st, ("eq", la - lo)):
        if eq:
            out.append((s2, venum("core::result::Result", 0, "Ok", [("iobuf", a, o, ONE)])))
        else:
            out.append((s2, venum("core::result::Result", 1, "Err", [("zst", "NotEqualError")])))
    return out


@prim("IntoIterator::into_iter", resolved=["InOutBuf"])
def iobuf_into_iter(ip, st, ci):
    b = iob(ip, st, ci["args"][0])
    cnt = count_of(st, ip.tlen(st, b[1]), b[3])
    return ("iter", "iobuf", b[1], b[2], b[3], cnt)


# ---------------------------------------------------------------- arrays / slices
@prim("default::Default::default", resolved=["Array"])
def array_default(ip, st, ci):
    return vbytes(T.bzero(ip.sizeof(crate(ci), dest_ty(ip, ci))))


@prim("clone::Clone::clone")
def clone_clone(ip, st, ci):
    v = ci["args"][0]
    if v[0] == "ref":
        cr = crate(ci)
        dty = dest_ty(ip, ci)
        return ip.load(st, v[1], cr, dty)
    raise Undecided("clone of %s" % v[0])


@prim("ops::Deref::deref", "ops::DerefMut::deref_mut", resolved=["Array"])
def array_deref(ip, st, ci):
    return ci["args"][0]


@prim("Array::as_mut_slice", "Array::as_slice")
def array_as_slice(ip, st, ci):
    return ci["args"][0]


@prim("core::slice::<impl [T]>::len")
def slice_len(ip, st, ci):
    tg = tg_of(ci["args"][0])
    esz = ip.sizeof(crate(ci), fn_targs(ci)[0])
    return vsize(count_of(st, ip.tlen(st, tg), esz))


@prim("RangeInclusive::<Idx>::new")
def range_inclusive_new(ip, st, ci):
    a, b = ci["args"]
    return vstruct("core::ops::RangeInclusive", {"start": a, "end": b, "exhausted": vbool(False)})


@prim("Array::len")
def array_len(ip, st, ci):
    tg = tg_of(ci["args"][0])
    esz = ip.sizeof(crate(ci), fn_targs(ci)[0])
    return vsize(count_of(st, ip.tlen(st, tg), esz))


def _index(ip, st, ci):
    tg = tg_of(ci["args"][0])
    idx = ci["args"][1]
    cr = crate(ci)
    self_ty = fn_targs(ci)[0]
    esz = ip.sizeof(cr, ip.elem_ty(cr, self_ty))
    total = ip.tlen(st, tg)
    if idx[0] == "size":
        ok = st.F.prove_ge(idx[1]) and st.F.prove_ge(total - (idx[1] + 1) * esz)
        oblig(st, ci, "bounds:index", ok, "%r < %r/%r" % (idx[1], total, esz))
        if not ok:
            st.F.add_ge(idx[1])
            st.F.add_ge(total - (idx[1] + 1) * esz)
        return vref(ip.br(tg, idx[1] * esz, esz))
    lo = ZERO
    hi = None
    if idx[0] == "range":
        lo, hi = idx[1][1], idx[2][1]
    elif idx[0] == "struct" and idx[1].endswith("RangeTo"):
        hi = idx[2]["end"][1]
    elif idx[0] == "struct" and idx[1].endswith("RangeFrom"):
        lo = idx[2]["start"][1]
    elif idx[0] in ("zst", "struct") and idx[1].endswith("RangeFull"):
        pass
    elif idx[0] == "struct" and idx[1].endswith("RangeToInclusive"):
        hi = idx[2]["end"][1] + 1
    elif idx[0] == "struct" and idx[1].endswith("RangeInclusive") and "start" in idx[2] and "end" in idx[2]:
        lo, hi = idx[2]["start"][1], idx[2]["end"][1] + 1
    else:
        raise Undecided("index by %s %s" % (idx[0], idx[1] if len(idx) > 1 else ""))
    hb = total if hi is None else hi * esz
    lb = lo * esz
    ok = st.F.prove_ge(lb) and st.F.prove_ge(hb - lb) and st.F.prove_ge(total - hb)
    oblig(st, ci, "bounds:range-index", ok, "0 <= %r <= %r <= %r" % (lb, hb, total))
    if not ok:
        st.F.add_ge(lb)
        st.F.add_ge(hb - lb)
        st.F.add_ge(total - hb)
    return vref(ip.br(tg, lb, hb - lb))


@prim("ops::Index::index", "ops::IndexMut::index_mut")
def index(ip, st, ci):
    return _index(ip, st, ci)


@prim("Array::iter_mut", "Array::iter", "core::slice::<impl [T]>::iter_mut", "core::slice::<impl [T]>::iter")
def slice_iter(ip, st, ci):
    tg = tg_of(ci["args"][0])
    esz = ip.sizeof(crate(ci), fn_targs(ci)[0])
    return ("iter", "slice", tg, esz, count_of(st, ip.tlen(st, tg), esz))


@prim("IntoIterator::into_iter")
def into_iter(ip, st, ci):
    v = ci["args"][0]
    return _as_iter(ip, st, ci, v, ci["argops"][0])


def _as_iter(ip, st, ci, v, argop):
    if v[0] == "iter":
        return v
    if v[0] == "range":
        if v[1][0] == "int" and v[2][0] == "int":
            # a range over a fixed-width integer type: elements start + i (no wrap inside the range)
            a, b = v[1][1], v[2][1]
            if a[3] or b[3]:
                raise Undecided("integer range with symbolic bounds")
            return ("iter", "irange", a[1], a, lin(max(b[2] - a[2], 0)))
        lo, hi = v[1][1], v[2][1]
        return ("iter", "range", lo, hi)
    if v[0] == "struct" and v[1].endswith("RangeFrom"):
        a = v[2]["start"]
        if a[0] == "int":
            return ("iter", "irange", a[1][1], a[1], None)      # unbounded (until overflow)
        if a[0] == "size":
            return ("iter", "urange", a[1])
    if v[0] == "ref":
        pv = ip.load(st, v[1])
        if pv[0] == "iter":
            return ("iter", "ref", v[1])
        if pv[0] == "bytes":
            cr = crate(ci)
            fr = ci["fr"]
            if argop["k"] in ("copy", "move"):
                aty = ip.place_ty(fr, argop["place"])
                esz = ip.sizeof(cr, ip.elem_ty(cr, aty))
                return ("iter", "slice", v[1], esz, count_of(st, ip.tlen(st, v[1]), esz))
    if v[0] == "bytes" and argop["k"] in ("copy", "move"):
        # an array iterated by value (`for c in ct` / `.zip(ct)`): its elements, copied out
        cr = crate(ci)
        aty = ip.place_ty(ci["fr"], argop["place"])
        esz = ip.sizeof(cr, ip.elem_ty(cr, aty))
        cell = ("arr", len(st.heap))
        st.heap[cell] = v
        return ("iter", "copied", ("iter", "slice", Target(cell), esz, count_of(st, T.blen(v[1]), esz)))
    raise Undecided("into_iter of %s" % v[0])


def _zip_of(ip, st, a, b):
    r = ("iter", "zip", a, b)
    try:
        if _unbounded(ip, st, a) or _unbounded(ip, st, b):
            return r
        na, nb = iter_count(ip, st, a), iter_count(ip, st, b)
    except Undecided:
        return r
    if not st.F.le(na, nb) and not st.F.le(nb, na):
        # which side ends the zip is a case split of the caller's path
        return [(s2, r) for s2, _ in fork_on(st, ("ge", nb - na))]
    return r


@prim("Iterator::zip")
def iter_zip(ip, st, ci):
    a = _as_iter(ip, st, ci, ci["args"][0], ci["argops"][0])
    b = _as_iter(ip, st, ci, ci["args"][1], ci["argops"][1])
    return _zip_of(ip, st, a, b)


@prim("Iterator::next")
def iter_next(ip, st, ci):
    fr = ci["fr"]
    key = (fr.id, ci["bb"])
    mode = st.loopmode.get(key)
    if mode is None:
        return _iter_step(ip, st, ci, False)
    if mode[0] == "probe":
        it = ip.load(st, tg_of(ci["args"][0]))
        raise LoopProbe(it, tg_of(ci["args"][0]))
    if mode[0] == "iter":
        it = ip.load(st, tg_of(ci["args"][0]))
        return [(s2, vsome(e)) for s2, e in iter_elem_multi(ip, st, it, Lin.sym(mode[1]))]
    if mode[0] == "iterk":
        it = ip.load(st, tg_of(ci["args"][0]))
        return [(s2, vsome(e)) for s2, e in iter_elem_multi(ip, st, it, lin(mode[1]))]
    if mode[0] == "done":
        return vnone()
    raise Undecided("loop mode")


def _iter_step(ip, st, ci, back):
    """one explicit `next()` / `next_back()` outside a loop header: yields the first / last element
    (None when empty) and leaves the iterator as a window over the remaining elements."""
    tg = tg_of(ci["args"][0])
    it = ip.load(st, tg)
    while it[0] == "iter" and it[1] == "ref":
        tg = it[2]
        it = ip.load(st, tg)
    if it[0] != "iter":
        raise Undecided("next on %s" % it[0])
    N = iter_count(ip, st, it)
    out = []
    for s2, nonempty in fork_on(st, ("ge", N - 1)):
        if not nonempty:
            out.append((s2, vnone()))
            continue
        idx = (N - 1) if back else ZERO
        for s3, e in iter_elem_multi(ip, s2, it, idx):
            if it[1] == "win":
                rest = ("iter", "win", it[2], it[3] + (ZERO if back else ONE), N - 1)
            else:
                rest = ("iter", "win", it, ZERO if back else ONE, N - 1)
            ip.store(s3, tg, rest)
            out.append((s3, vsome(e)))
    return out


@prim("DoubleEndedIterator::next_back")
def iter_next_back(ip, st, ci):
    return _iter_step(ip, st, ci, True)


class LoopProbe(Exception):
    def __init__(self, it, tg=None):
        self.it = it
        self.tg = tg


def iter_breaks(ip, st, it):
    """indices at which the element formula of an iterator changes (the seam of a `chain`), in the
    index space of `it`; a loop over it is summarised segment by segment between them."""
    k = it[1]
    if k == "chain":
        na = iter_count(ip, st, it[2])
        return iter_breaks(ip, st, it[2]) + [na] + [na + x for x in iter_breaks(ip, st, it[3])]
    if k == "zip":
        return iter_breaks(ip, st, it[2]) + iter_breaks(ip, st, it[3])
    if k in ("enumerate", "copied", "take", "map"):
        return iter_breaks(ip, st, it[2])
    if k in ("skip", "win"):
        return [x - it[3] for x in iter_breaks(ip, st, it[2])]
    if k == "rev":
        n = iter_count(ip, st, it[2])
        return [n - x for x in iter_breaks(ip, st, it[2])]
    if k == "ref":
        return iter_breaks(ip, st, ip.load(st, it[2]))
    return []


def iter_segments(ip, st, it):
    """[(state, [(lo, count), ...])]: the index range [0, N) of `it` cut at its breakpoints; the order
    of a breakpoint relative to 0 and N is decided from the facts or by a case split."""
    N = iter_count(ip, st, it)
    brks = []
    for b in iter_breaks(ip, st, it):
        if not any(st.F.prove_eq(b - x) for x in brks):
            brks.append(b)
    if not brks:
        return [(st, [(ZERO, N)])]
    if len(brks) > 2:
        raise Undecided("iterator with %d seams" % len(brks))
    states = [(st, [])]
    for b in brks:
        nxt = []
        for s, cuts in states:
            for s2, inside in _fork_inside(s, b, N):
                nxt.append((s2, cuts + ([b] if inside else [])))
        states = nxt
    out = []
    for s, cuts in states:
        if len(cuts) == 2 and not s.F.le(cuts[0], cuts[1]):
            if s.F.le(cuts[1], cuts[0]):
                cuts = [cuts[1], cuts[0]]
            else:
                raise Undecided("order of iterator seams %r" % (cuts,))
        pts = [ZERO] + cuts + [N]
        out.append((s, [(pts[i], pts[i + 1] - pts[i]) for i in range(len(pts) - 1)]))
    return out


def _fork_inside(st, b, N):
    """is the seam b a cut point of [0, N)?  0 <= b <= N provable: yes, without a case split (a
    segment may then be empty); otherwise split on 0 < b < N."""
    if st.F.prove_ge(b) and st.F.prove_ge(N - b):
        return [(st, True)]
    res = []
    for s1, pos in fork_on(st, ("ge", b - 1)):
        if not pos:
            res.append((s1, False))
            continue
        for s2, below in fork_on(s1, ("ge", N - 1 - b)):
            res.append((s2, below))
    return res


@prim("core::slice::<impl [T]>::copy_from_slice")
def copy_from_slice(ip, st, ci):
    dst = tg_of(ci["args"][0])
    src = tg_of(ci["args"][1])
    ld, ls = ip.tlen(st, dst), ip.tlen(st, src)
    ok = st.F.prove_eq(ld - ls)
    oblig(st, ci, "len:copy_from_slice", ok, "%r == %r" % (ld, ls))
    if not ok:
        st.F.add_eq(ld - ls)
    v = ip.load(st, src)
    ip.store(st, ip.br(dst, ZERO, ld) if not (dst.path and dst.path[-1][0] == "br") else dst, v)
    return vunit()


@prim("core::slice::<impl [T]>::split_at_mut", "core::slice::<impl [T]>::split_at")
def split_at_mut(ip, st, ci):
    tg = tg_of(ci["args"][0])
    mid = ci["args"][1]
    esz = ip.sizeof(crate(ci), fn_targs(ci)[0])
    total = ip.tlen(st, tg)
    m = mid[1] * esz
    ok = st.F.prove_ge(m) and st.F.prove_ge(total - m)
    oblig(st, ci, "bounds:split_at", ok, "%r <= %r" % (m, total))
    if not ok:
        st.F.add_ge(m)
        st.F.add_ge(total - m)
    return ("tuple", [vref(ip.br(tg, ZERO, m)), vref(ip.br(tg, m, total - m))])


@prim("core::slice::<impl [T]>::split_last_mut", "core::slice::<impl [T]>::split_last")
def split_last_mut(ip, st, ci):
    tg = tg_of(ci["args"][0])
    esz = ip.sizeof(crate(ci), fn_targs(ci)[0])
    total = ip.tlen(st, tg)
    out = []
    for s2, nonempty in fork_on(st, ("ge", total - esz)):
        if nonempty:
            last = vref(ip.br(tg, total - esz, esz))
            rest = vref(ip.br(tg, ZERO, total - esz))
            out.append((s2, vsome(("tuple", [last, rest]))))
        else:
            out.append((s2, vnone()))
    return out


@prim("core::slice::<impl [T]>::last_mut", "core::slice::<impl [T]>::last")
def last_mut(ip, st, ci):
    tg = tg_of(ci["args"][0])
    esz = ip.sizeof(crate(ci), fn_targs(ci)[0])
    total = ip.tlen(st, tg)
    out = []
    for s2, nonempty in fork_on(st, ("ge", total - esz)):
        if nonempty:
            out.append((s2, vsome(vref(ip.br(tg, total - esz, esz)))))
        else:
            out.append((s2, vnone()))
    return out


@prim("core::slice::<impl [T]>::chunks_exact_mut", "core::slice::<impl [T]>::chunks_exact")
def chunks_exact_mut(ip, st, ci):
    tg = tg_of(ci["args"][0])
    n = ci["args"][1]
    esz = ip.sizeof(crate(ci), fn_targs(ci)[0])
    total = ip.tlen(st, tg)
    chunk = n[1] * esz
    ok = st.F.prove_ge(chunk - 1)
    oblig(st, ci, "nonzero:chunks_exact", ok, "%r != 0" % (chunk,))
    k, d = decompose(st, total, chunk)
    return ("iter", "chunks", tg, total, chunk, k, d)


@prim("core::slice::<impl [T]>::rchunks_exact_mut", "core::slice::<impl [T]>::rchunks_exact")
def rchunks_exact_mut(ip, st, ci):
    """chunks counted from the END of the slice; the remainder is at the front."""
    tg = tg_of(ci["args"][0])
    n = ci["args"][1]
    esz = ip.sizeof(crate(ci), fn_targs(ci)[0])
    total = ip.tlen(st, tg)
    chunk = n[1] * esz
    ok = st.F.prove_ge(chunk - 1)
    oblig(st, ci, "nonzero:rchunks_exact", ok, "%r != 0" % (chunk,))
    k, d = decompose(st, total, chunk)
    return ("iter", "rchunks", tg, total, chunk, k, d)


@prim("RChunksExactMut::into_remainder", "RChunksExact::remainder")
def rchunks_into_remainder(ip, st, ci):
    it = ci["args"][0]
    if it[0] == "ref":
        it = ip.load(st, it[1])
    if it[0] != "iter" or it[1] != "rchunks":
        raise Undecided("into_remainder of %s" % (it[:2],))
    return vref(ip.br(it[2], ZERO, it[6]))


@prim("ChunksExactMut::into_remainder", "ChunksExact::remainder")
def into_remainder(ip, st, ci):
    it = ci["args"][0]
    if it[0] == "ref":
        it = ip.load(st, it[1])
    if it[0] != "iter" or it[1] != "chunks":
        raise Undecided("into_remainder of %s" % (it[:2],))
    return vref(ip.br(it[2], it[5] * it[4], it[6]))


@prim("convert::TryInto::try_into", "convert::TryFrom::try_from")
def try_into(ip, st, ci):
    v = ci["args"][0]
    cr = crate(ci)
    dt = cr.types[dest_ty(ip, ci)]
    okty = [a["ty"] for a in dt["args"] if "ty" in a][0]
    okt = cr.types[okty]
    if v[0] == "ref":
        tg = v[1]
        have = ip.tlen(st, tg)
        if okt["k"] == "ref":
            want = ip.sizeof(cr, okt["inner"])
            val = vref(ip.br(tg, ZERO, have))
        else:
            want = ip.sizeof(cr, okty)
            val = None
        out = []
        for s2, eq in fork_on(st, ("eq", have - want)):
            if eq:
                vv = val if val is not None else ip.load(s2, tg)
                out.append((s2, venum("core::result::Result", 0, "Ok", [vv])))
            else:
                out.append((s2, venum("core::result::Result", 1, "Err", [("zst", "TryFromSliceError")])))
        return out
    if v[0] == "int" and okt["k"] == "uint" and okt["name"] == "usize":
        return ("symres", ("try_usize", v[1]))
    if v[0] == "bytes" and ip.is_bytes_ty(cr, okty):
        return venum("core::result::Result", 0, "Ok", [v])
    if v[0] == "iobuf" and v[3] == ONE and okt["k"] == "adt" and okt["s"].startswith("cipher::InOut<") and "Array<u8" in okt["s"]:
        # InOutBuf<u8> -> InOut<Array<u8, N>>: Ok iff the buffer is exactly one array long
        inner = [a["ty"] for a in okt.get("args", []) if "ty" in a]
        if inner:
            want = ip.sizeof(cr, inner[0])
            have = ip.tlen(st, v[1])
            out = []
            for s2, eq in fork_on(st, ("eq", have - want)):
                if eq:
                    out.append((s2, venum("core::result::Result", 0, "Ok", [mk_inout(ip.br(v[1], ZERO, have), ip.br(v[2], ZERO, have))])))
                else:
                    out.append((s2, venum("core::result::Result", 1, "Err", [("zst", "IntoArrayError")])))
            return out
    raise Undecided("try_into from %s to %s" % (v[0], okt["s"]))


@prim("Result::<T, E>::unwrap", "Option::<T>::unwrap", "Result::<T, E>::expect", "Option::<T>::expect")
def unwrap(ip, st, ci):
    v = ci["args"][0]
    if v[0] == "enum":
        good = (v[3] in ("Ok", "Some"))
        oblig(st, ci, "unwrap", good, "unwrap on %s" % v[3])
        if good:
            return v[4][0]
        return []  # path panics: dropped, obligation recorded as failed
    if v[0] == "symopt" and v[1][0] == "checked":
        oblig(st, ci, "unwrap", False, "unwrap/expect of %s, which is None whenever the %d-bit operation overflows" % (v[1][1], v[1][2][1][1]))
        return v[1][2]
    raise Undecided("unwrap of %s" % (v[0],))


@prim("Result::<T, E>::ok")
def result_ok(ip, st, ci):
    v = ci["args"][0]
    if v[0] == "enum":
        return vsome(v[4][0]) if v[3] == "Ok" else vnone()
    if v[0] == "symres":
        return ("symopt", ("ok", v[1]))
    raise Undecided("Result::ok of %s" % v[0])


def _call_closure(ip, st, ci, clo, args):
    byref = None
    if clo[0] == "ref":
        # `&mut F` / `&F` is itself callable: the call goes to the closure behind the reference
        pv = ip.load(st, clo[1])
        hops = 0
        while pv[0] == "ref" and hops < 4:
            clo = pv
            pv = ip.load(st, clo[1])
            hops += 1
        if pv[0] == "closure":
            byref, clo = clo, pv
    if clo[0] == "fn":
        # a non-capturing closure used as a zero-sized constant, or a function item as callback
        cr0 = crate(ci)
        b0 = cr0.by_path.get(clo[1]["path"])
        if b0 is not None and b0.get("kind") == "closure":
            clo = ("closure", clo[1]["path"], [], tuple(sorted(ip.tyenv[-1].items())))
        else:
            ci2 = dict(ci)
            ci2["fn"] = clo[1]
            ci2["args"] = list(args)
            ci2["argops"] = [(ci.get("argops") or [{"k": "const"}])[0]] * len(args)
            ci2.setdefault("term", {"span": {"file": "?", "line": 0}, "dest": None})
            ci2.setdefault("bb", 0)
            return ip.call(st, ci2)
    if clo[0] != "closure":
        raise Undecided("callee is %s, not a closure" % clo[0])
    cr = crate(ci)
    body = cr.by_path.get(clo[1])
    if body is None:
        raise Undecided("closure body %s" % clo[1])
    self_arg = clo
    t1 = cr.types[body["locals"][1]["ty"]]
    if t1["k"] == "ref":
        if byref is not None:
            self_arg = byref
        else:
            cell = ("clo", len(st.heap))
            st.heap[cell] = clo
            self_arg = vref(Target(cell))
    a = [self_arg] + list(args)
    if body["arg_count"] == 2 and len(args) != 1:
        a = [self_arg, ("tuple", list(args))]
    return ip.inline(st, cr, body, a, ci["fr"].depth + 1, env0=dict(clo[3]) if len(clo) > 3 else dict(ip.tyenv[-1]))


@prim("ops::Try::branch")
def try_branch(ip, st, ci):
    """the `?` operator, first half: Ok(v)/Some(v) -> Continue(v); Err(e)/None -> Break(residual)."""
    v = ci["args"][0]
    if v[0] != "enum":
        raise Undecided("`?` on %s" % v[0])
    CF = "core::ops::ControlFlow"
    if v[3] in ("Ok", "Some"):
        return venum(CF, 0, "Continue", [v[4][0]])
    if v[3] == "Err":
        return venum(CF, 1, "Break", [venum("core::result::Result", 1, "Err", [v[4][0]])])
    if v[3] == "None":
        return venum(CF, 1, "Break", [vnone()])
    raise Undecided("`?` on variant %s" % v[3])


@prim("ops::FromResidual::from_residual")
def from_residual(ip, st, ci):
    """the `?` operator, second half: the residual becomes the function's own Err / None.  The error
    conversion `From::from` is the identity when both error types are the same type (checked)."""
    v = ci["args"][0]
    if v[0] != "enum":
        raise Undecided("from_residual of %s" % v[0])
    if v[3] == "None":
        return vnone()
    if v[3] == "Err":
        cr = crate(ci)
        dt = cr.types[dest_ty(ip, ci)]
        src = cr.types[ip.place_ty(ci["fr"], ci["argops"][0]["place"])] if ci["argops"][0]["k"] in ("copy", "move") else None
        de = [a["ty"] for a in dt.get("args", []) if "ty" in a]
        se = [a["ty"] for a in (src or {}).get("args", []) if "ty" in a]
        if len(de) == 2 and len(se) == 2 and cr.types[de[1]]["s"] == cr.types[se[1]]["s"]:
            return venum("core::result::Result", 1, "Err", [v[4][0]])
        raise Undecided("`?` converting the error type (%s -> %s)" % (cr.types[se[1]]["s"] if len(se) == 2 else "?", cr.types[de[1]]["s"] if len(de) == 2 else "?"))
    raise Undecided("from_residual of variant %s" % v[3])


@prim("Result::<T, E>::map_err")
def result_map_err(ip, st, ci):
    v, clo = ci["args"]
    if v[0] == "enum" and v[3] == "Ok":
        return v
    if v[0] == "enum" and v[3] == "Err":
        out = []
        for s2, r in _call_closure(ip, st, ci, clo, [v[4][0]]):
            out.append((s2, venum(v[1], 1, "Err", [r])))
        return out
    raise Undecided("map_err of %s" % v[0])


@prim("Result::<T, E>::and_then")
def result_and_then(ip, st, ci):
    v, clo = ci["args"]
    if v[0] == "enum" and v[3] == "Err":
        return v
    if v[0] == "enum" and v[3] == "Ok":
        return _call_closure(ip, st, ci, clo, [v[4][0]])
    raise Undecided("and_then of %s" % v[0])


@prim("core::slice::<impl [T]>::swap_with_slice")
def swap_with_slice(ip, st, ci):
    a, b = tg_of(ci["args"][0]), tg_of(ci["args"][1])
    la, lb = ip.tlen(st, a), ip.tlen(st, b)
    ok = st.F.prove_eq(la - lb)
    oblig(st, ci, "len:swap_with_slice", ok, "%r == %r" % (la, lb))
    if not ok:
        st.F.add_eq(la - lb)
    va, vb = ip.load(st, a), ip.load(st, b)
    ip.store(st, a if (a.path and a.path[-1][0] == "br") else ip.br(a, ZERO, la), vb)
    ip.store(st, b if (b.path and b.path[-1][0] == "br") else ip.br(b, ZERO, lb), va)
    return vunit()


@prim("core::mem::swap")
def mem_swap(ip, st, ci):
    a, b = tg_of(ci["args"][0]), tg_of(ci["args"][1])
    va, vb = ip.load(st, a), ip.load(st, b)
    ip.store(st, a, vb)
    ip.store(st, b, va)
    return vunit()


@prim("core::mem::replace")
def mem_replace(ip, st, ci):
    a = tg_of(ci["args"][0])
    old = ip.load(st, a)
    ip.store(st, a, ci["args"][1])
    return old


@prim("Array::concat")
def array_concat(ip, st, ci):
    a, b = ci["args"]
    return vbytes(T.bnorm(a[1] + b[1], st.F))


# ---------------------------------------------------------------- integers
def _w(ci):
    p = ci["fn"]["path"]
    for w in (128, 64, 32, 16):
        if "impl u%d>" % w in p:
            return w
    if "impl usize>" in p:
        return 0
    raise Undecided("integer width of %s" % p)


@prim("::wrapping_add")
def wrapping_add(ip, st, ci):
    a, b = ci["args"]
    if a[0] == "int" and b[0] == "int":
        return vint(T.iadd(a[1], b[1]))
    raise Undecided("wrapping_add on %s,%s" % (a[0], b[0]))


@prim("::wrapping_sub")
def wrapping_sub(ip, st, ci):
    a, b = ci["args"]
    if a[0] == "int" and b[0] == "int":
        return vint(T.isub(a[1], b[1]))
    raise Undecided("wrapping_sub on %s,%s" % (a[0], b[0]))


def _from_bytes(endian):
    def f(ip, st, ci):
        v = ci["args"][0]
        if v[0] != "bytes":
            raise Undecided("from_bytes of %s" % v[0])
        return vint(T.ifrombytes(endian, _w(ci), v[1], st.F))
    f.__name__ = "from_%s_bytes" % endian
    return f


def _to_bytes(endian):
    def f(ip, st, ci):
        v = ci["args"][0]
        if v[0] != "int":
            raise Undecided("to_bytes of %s" % v[0])
        return vbytes(T.itobytes(endian, v[1], st.F))
    f.__name__ = "to_%s_bytes" % endian
    return f


for _e in ("be", "le", "ne"):
    prim("::from_%s_bytes" % _e)(_from_bytes(_e))
    prim("::to_%s_bytes" % _e)(_to_bytes(_e))


def _endian_conv(endian, direction):
    """x.to_be() / x.to_le(): the integer whose NATIVE bytes are the be/le encoding of x;
    uN::from_be(x) / from_le(x): the integer whose be/le encoding is the native bytes of x."""
    def f(ip, st, ci):
        v = ci["args"][0]
        if v[0] != "int":
            raise Undecided("endianness conversion of %s" % v[0])
        w = v[1][1]
        if direction == "to":
            return vint(T.ifrombytes("ne", w, T.itobytes(endian, v[1], st.F), st.F))
        return vint(T.ifrombytes(endian, w, T.itobytes("ne", v[1], st.F), st.F))
    f.__name__ = "%s_%s" % (direction, endian)
    return f


for _e in ("be", "le"):
    prim(">::to_%s" % _e)(_endian_conv(_e, "to"))
    prim(">::from_%s" % _e)(_endian_conv(_e, "from"))


@prim("core::mem::take")
def mem_take(ip, st, ci):
    """take(&mut x): returns x and leaves Default::default() — the empty slice for a slice
    reference, zero for integers and byte arrays."""
    a = tg_of(ci["args"][0])
    old = ip.load(st, a)
    if old[0] == "ref" and not (old[1].path and old[1].path[-1][0] == "br"):
        try:
            tv = ip.load(st, old[1], log=False)
            if tv[0] == "bytes":
                old = ("ref", ip.br(old[1], ZERO, T.blen(tv[1])))
        except Undecided:
            pass
    if old[0] == "ref" and old[1].path and old[1].path[-1][0] == "br":
        br = old[1].path[-1]
        ip.store(st, a, ("ref", Target(old[1].cell, old[1].path[:-1] + (("br", br[1], ZERO),))))
    elif old[0] == "bytes":
        ip.store(st, a, vbytes(T.bzero(T.blen(old[1]))))
    elif old[0] == "size":
        ip.store(st, a, vsize(ZERO))
    elif old[0] == "int":
        ip.store(st, a, vint(T.iconst(old[1][1], 0)))
    elif old[0] == "enum" and old[1].endswith("Option"):
        ip.store(st, a, vnone())
    else:
        raise Undecided("mem::take of %s" % old[0])
    return old


@prim("core::bool::<impl bool>::then", "core::bool::<impl bool>::then_some")
def bool_then(ip, st, ci):
    b, x = ci["args"]
    if b[0] != "bool":
        raise Undecided("bool::then on %s" % b[0])
    lazy = ci["fn"]["name"] == "then"
    out = []
    c = b[1]
    cases = [(st, c == ("true",))] if c in (("true",), ("false",)) else (fork_on(st, c) if c[0] in ("ge", "lt", "eq", "ne") else None)
    if cases is None:
        raise Undecided("bool::then on an undecidable condition")
    for s2, yes in cases:
        if not yes:
            out.append((s2, vnone()))
        elif lazy:
            for s3, r in _call_closure(ip, s2, ci, x, []):
                out.append((s3, vsome(r)))
        else:
            out.append((s2, vsome(x)))
    return out


@prim("Option::<T>::ok_or")
def option_ok_or(ip, st, ci):
    v, e = ci["args"]
    if v[0] != "enum":
        raise Undecided("ok_or on %s" % v[0])
    if v[3] == "Some":
        return venum("core::result::Result", 0, "Ok", [v[4][0]])
    return venum("core::result::Result", 1, "Err", [e])


@prim("Option::<T>::ok_or_else")
def option_ok_or_else(ip, st, ci):
    v, clo = ci["args"]
    if v[0] != "enum":
        raise Undecided("ok_or_else on %s" % v[0])
    if v[3] == "Some":
        return venum("core::result::Result", 0, "Ok", [v[4][0]])
    return [(s2, venum("core::result::Result", 1, "Err", [r])) for s2, r in _call_closure(ip, st, ci, clo, [])]


@prim("cmp::PartialEq::eq", "cmp::PartialEq::ne")
def partial_eq(ip, st, ci):
    """== / != through the trait (Option<usize>, references to sizes ...): structural comparison."""
    a, b = ci["args"]
    for _ in range(3):
        if a[0] == "ref":
            a = ip.load(st, a[1])
        if b[0] == "ref":
            b = ip.load(st, b[1])

    def eq(x, y):
        if x[0] == "size" and y[0] == "size":
            return ("eq", x[1] - y[1])
        if x[0] == "enum" and y[0] == "enum":
            if x[3] != y[3]:
                return ("false",)
            cs = [eq(p, q) for p, q in zip(x[4], y[4])]
            cs = [c for c in cs if c != ("true",)]
            if any(c == ("false",) for c in cs):
                return ("false",)
            if not cs:
                return ("true",)
            if len(cs) == 1:
                return cs[0]
            return ("and",) + tuple(cs)
        if x[0] == "int" and y[0] == "int":
            if T.iequal(x[1], y[1], st.F):
                return ("true",)
            if not x[1][3] and not y[1][3]:
                return ("false",)
            return ("opaque", "int-Eq", T.ishow(x[1]), T.ishow(y[1]))
        if x[0] == "bool" and y[0] == "bool" and x[1] in (("true",), ("false",)) and y[1] in (("true",), ("false",)):
            return ("true",) if x[1] == y[1] else ("false",)
        if x[0] == "unit" and y[0] == "unit":
            return ("true",)
        raise Undecided("== on %s, %s" % (x[0], y[0]))
    c = eq(a, b)
    if ci["fn"]["name"] == "ne":
        c = neg_cond(c)
    return ("bool", c)


@prim("Result::<T, E>::or", "Option::<T>::or")
def result_or(ip, st, ci):
    v, o = ci["args"]
    if v[0] != "enum":
        raise Undecided("or on %s" % v[0])
    return v if v[3] in ("Ok", "Some") else o


@prim("Result::<T, E>::or_else", "Option::<T>::or_else")
def result_or_else(ip, st, ci):
    v, clo = ci["args"]
    if v[0] != "enum":
        raise Undecided("or_else on %s" % v[0])
    if v[3] in ("Ok", "Some"):
        return v
    return _call_closure(ip, st, ci, clo, list(v[4]) if v[3] == "Err" else [])


@prim("core::slice::from_ref", "core::slice::from_mut", "core::array::from_ref", "core::array::from_mut")
def slice_from_ref(ip, st, ci):
    """&T as a one-element slice: the same referent."""
    v = ci["args"][0]
    if v[0] != "ref":
        raise Undecided("slice::from_ref of %s" % v[0])
    tv = ip.load(st, v[1], log=False)
    if tv[0] == "bytes" and not (v[1].path and v[1].path[-1][0] == "br"):
        return vref(ip.br(v[1], ZERO, T.blen(tv[1])))
    return v


@prim("core::iter::zip")
def iter_zip_fn(ip, st, ci):
    a = _as_iter(ip, st, ci, ci["args"][0], ci["argops"][0])
    b = _as_iter(ip, st, ci, ci["args"][1], ci["argops"][1])
    return _zip_of(ip, st, a, b)


@prim("core::num::NonZero::<T>::new")
def nonzero_new(ip, st, ci):
    v = ci["args"][0]
    if v[0] != "size":
        raise Undecided("NonZero::new of %s" % v[0])
    out = []
    for s2, nz in fork_on(st, ("ge", v[1] - 1)):
        out.append((s2, vsome(v) if nz else vnone()))
    return out


@prim("core::num::NonZero::<T>::get")
def nonzero_get(ip, st, ci):
    return ci["args"][0]


@prim("Option::<T>::take")
def option_take(ip, st, ci):
    a = tg_of(ci["args"][0])
    old = ip.load(st, a)
    if old[0] != "enum":
        raise Undecided("Option::take of %s" % old[0])
    ip.store(st, a, vnone())
    return old


@prim("Option::<T>::map_or", "Result::<T, E>::map_or")
def option_map_or(ip, st, ci):
    v, d, clo = ci["args"]
    if v[0] != "enum":
        raise Undecided("map_or on %s" % v[0])
    if v[3] in ("Some", "Ok"):
        return _call_closure(ip, st, ci, clo, [v[4][0]])
    return d


@prim("Option::<T>::unwrap_or_default", "Result::<T, E>::unwrap_or_default")
def option_unwrap_or_default(ip, st, ci):
    v = ci["args"][0]
    if v[0] == "enum" and v[3] in ("Some", "Ok"):
        return v[4][0]
    raise Undecided("unwrap_or_default on %s" % (v[3] if v[0] == "enum" else v[0]))


@prim("<impl u128>::abs_diff", "<impl u64>::abs_diff", "<impl u32>::abs_diff")
def int_abs_diff(ip, st, ci):
    a, b = ci["args"]
    if a[0] != "int" or b[0] != "int":
        raise Undecided("abs_diff on %s" % a[0])
    if T.iequal(a[1], b[1], st.F):
        return vint(T.iconst(a[1][1], 0))
    return vint(T.ifn(a[1][1], "abs_diff", a[1], b[1]))


@prim("cmp::Ord::cmp", "cmp::PartialOrd::partial_cmp")
def ord_cmp(ip, st, ci):
    """three-way comparison of two sizes: one path per outcome."""
    a, b = ci["args"]
    for _ in range(3):
        if a[0] == "ref":
            a = ip.load(st, a[1])
        if b[0] == "ref":
            b = ip.load(st, b[1])
    if a[0] != "size" or b[0] != "size":
        raise Undecided("cmp of %s and %s" % (a[0], b[0]))
    part = ci["fn"]["name"] == "partial_cmp"
    out = []
    for s1, lt in fork_on(st, ("ge", b[1] - a[1] - 1)):
        if lt:
            out.append((s1, venum("core::cmp::Ordering", 0, "Less", [])))
            continue
        for s2, eq in fork_on(s1, ("eq", a[1] - b[1])):
            out.append((s2, venum("core::cmp::Ordering", 1, "Equal", []) if eq else venum("core::cmp::Ordering", 2, "Greater", [])))
    if part:
        out = [(s_, vsome(v_)) for s_, v_ in out]
    return out


@prim("<impl usize>::div_ceil")
def usize_div_ceil(ip, st, ci):
    a, b = ci["args"]
    k, d = decompose(st, a[1], b[1])
    out = []
    for s2, z in fork_on(st, ("eq", d)):
        out.append((s2, vsize(k if z else k + 1)))
    return out


@prim("<impl usize>::saturating_sub")
def usize_saturating_sub(ip, st, ci):
    a, b = ci["args"]
    out = []
    for s2, ge in fork_on(st, ("ge", a[1] - b[1])):
        out.append((s2, vsize(a[1] - b[1] if ge else 0)))
    return out


# ---------------------------------------------------------------- block cipher (T3)
def _cipher_inout(kind, par):
    def f(ip, st, ci):
        io = ci["args"][1]
        if io[0] != "inout":
            raise Undecided("cipher call on %s" % io[0])
        inp = ip.load(st, io[1])
        bs = bs_len(ip)
        total = T.blen(inp[1])
        if par:
            cnt = count_of(st, total, bs)
            res = T.map_cipher(kind, inp[1], cnt, bs, st.F)
        else:
            ok = st.F.prove_eq(total - bs)
            if not ok:
                raise Undecided("cipher block of length %r" % total)
            res = T.mkcipher(kind, inp[1], st.F)
        st.events.append(("cipher", kind, "par" if par else "one", inp[1]))
        ip.store(st, io[2], vbytes(res))
        return vunit()
    f.__name__ = "cipher_%s_%s" % (kind, "par" if par else "one")
    return f


def _cipher_inplace(kind, par):
    def f(ip, st, ci):
        tg = tg_of(ci["args"][1])
        inp = ip.load(st, tg)
        bs = bs_len(ip)
        total = T.blen(inp[1])
        if par:
            res = T.map_cipher(kind, inp[1], count_of(st, total, bs), bs, st.F)
        else:
            if not st.F.prove_eq(total - bs):
                raise Undecided("cipher block of length %r" % total)
            res = T.mkcipher(kind, inp[1], st.F)
        st.events.append(("cipher", kind, "par" if par else "one", inp[1]))
        ip.store(st, tg, vbytes(res))
        return vunit()
    f.__name__ = "cipher_inplace_%s_%s" % (kind, "par" if par else "one")
    return f


prim("BlockCipherEncBackend::encrypt_block")(_cipher_inout("E", False))
prim("BlockCipherEncBackend::encrypt_par_blocks")(_cipher_inout("E", True))
prim("BlockCipherDecBackend::decrypt_block")(_cipher_inout("D", False))
prim("BlockCipherDecBackend::decrypt_par_blocks")(_cipher_inout("D", True))
prim("BlockCipherEncBackend::encrypt_block_inplace", "BlockCipherEncrypt::encrypt_block")(_cipher_inplace("E", False))
prim("BlockCipherEncBackend::encrypt_par_blocks_inplace")(_cipher_inplace("E", True))
prim("BlockCipherDecBackend::decrypt_block_inplace", "BlockCipherDecrypt::decrypt_block")(_cipher_inplace("D", False))
prim("BlockCipherDecBackend::decrypt_par_blocks_inplace")(_cipher_inplace("D", True))
prim("BlockCipherEncrypt::encrypt_block_inout")(_cipher_inout("E", False))
prim("BlockCipherDecrypt::decrypt_block_inout")(_cipher_inout("D", False))


@prim("BlockCipherEncrypt::encrypt_block_b2b")
def enc_b2b(ip, st, ci):
    src, dst = tg_of(ci["args"][1]), tg_of(ci["args"][2])
    inp = ip.load(st, src)
    st.events.append(("cipher", "E", "one", inp[1]))
    ip.store(st, dst, vbytes(T.mkcipher("E", inp[1], st.F)))
    return vunit()


@prim("BlockCipherDecrypt::decrypt_block_b2b")
def dec_b2b(ip, st, ci):
    src, dst = tg_of(ci["args"][1]), tg_of(ci["args"][2])
    inp = ip.load(st, src)
    st.events.append(("cipher", "D", "one", inp[1]))
    ip.store(st, dst, vbytes(T.mkcipher("D", inp[1], st.F)))
    return vunit()


def _with_backend(closure_trait):
    def f(ip, st, ci):
        clo = ci["args"][1]
        if clo[0] != "struct":
            raise Undecided("with_backend closure is %s" % clo[0])
        cr = crate(ci)
        for im in cr.impls:
            if im.get("trait_name") == closure_trait and im.get("self_adt") == clo[1]:
                for b in cr.bodies_of_impl(im):
                    if b["name"] == "call":
                        if ("A", "cipher_backend") not in st.heap:
                            st.heap[("A", "cipher_backend")] = ("opaque", "BK")
                        st.events.append(("with_backend", closure_trait, clo[1]))
                        res = ip.inline(st, cr, b, [clo, vref(Target(("A", "cipher_backend")))], ci["fr"].depth + 1)
                        return [(s2, vunit()) for s2, _ in res]
        raise Undecided("no %s impl for %s" % (closure_trait, clo[1]))
    f.__name__ = "with_backend_" + closure_trait
    return f


prim("BlockCipherEncrypt::encrypt_with_backend")(_with_backend("BlockCipherEncClosure"))
prim("BlockCipherDecrypt::decrypt_with_backend")(_with_backend("BlockCipherDecClosure"))


@prim("BlockModeEncClosure::call", "BlockModeDecClosure::call", "StreamCipherClosure::call")
def mode_closure_call(ip, st, ci):
    be = ci["args"][1]
    v = ip.load(st, tg_of(be))
    st.events.append(("driver_call", ci["fn"]["path"], v))
    return vunit()


# ---------------------------------------------------------------- Option / Result combinators, zeroize
@prim("Option::<T>::filter")
def option_filter(ip, st, ci):
    v, clo = ci["args"]
    if v[0] != "enum":
        raise Undecided("Option::filter on %s" % v[0])
    if v[3] == "None":
        return v
    cell = ("flt", len(st.heap))
    st.heap[cell] = v[4][0]
    out = []
    for s2, r in _call_closure(ip, st, ci, clo, [vref(Target(cell))]):
        if r[0] != "bool":
            raise Undecided("Option::filter predicate returned %s" % r[0])
        c = r[1]
        if c in (("true",), ("false",)):
            cases = [(s2, c == ("true",))]
        elif c[0] in ("ge", "lt", "eq", "ne"):
            cases = fork_on(s2, c)
        else:
            raise Undecided("Option::filter on an undecidable condition")
        for s3, yes in cases:
            out.append((s3, v if yes else vnone()))
    return out


@prim("Option::<T>::and_then", "Option::<T>::map", "Result::<T, E>::map")
def option_and_then(ip, st, ci):
    v, clo = ci["args"]
    if v[0] != "enum":
        raise Undecided("Option combinator on %s" % v[0])
    if v[3] in ("None", "Err"):
        return v
    is_map = ci["fn"]["name"] == "map"
    if v[3] == "Ok":
        vsome_ = lambda r: venum("core::result::Result", 0, "Ok", [r])
    else:
        vsome_ = vsome
    if clo[0] == "closure":
        out = []
        for s2, r in _call_closure(ip, st, ci, clo, [v[4][0]]):
            out.append((s2, vsome_(r) if is_map else r))
        return out
    if clo[0] == "fn":
        # path to a function item used as the callback
        ci2 = dict(ci)
        ci2["fn"] = clo[1]
        ci2["args"] = [v[4][0]]
        ci2["argops"] = [ci["argops"][0]]
        out = []
        for s2, r in ip.call(st, ci2):
            out.append((s2, vsome_(r) if is_map else r))
        return out
    raise Undecided("Option combinator with %s callback" % clo[0])


@prim("Option::<&T>::cloned", "Option::<&T>::copied", "Option::<&mut T>::cloned", "Option::<&mut T>::copied")
def option_cloned(ip, st, ci):
    v = ci["args"][0]
    if v[0] != "enum":
        raise Undecided("Option::cloned on %s" % v[0])
    if v[3] == "None":
        return v
    return vsome(ip.load(st, tg_of(v[4][0])))


@prim("Option::<T>::is_some", "Option::<T>::is_none", "Result::<T, E>::is_ok", "Result::<T, E>::is_err")
def option_is(ip, st, ci):
    v = ci["args"][0]
    if v[0] == "ref":
        v = ip.load(st, v[1])
    if v[0] != "enum":
        raise Undecided("is_some on %s" % v[0])
    pos = v[3] in ("Some", "Ok")
    want = ci["fn"]["name"] in ("is_some", "is_ok")
    return vbool(pos == want)


@prim("Option::<T>::unwrap_or", "Result::<T, E>::unwrap_or")
def option_unwrap_or(ip, st, ci):
    v, d = ci["args"]
    if v[0] == "symopt" and v[1][0] == "checked" and len(v[1]) == 5 and d[0] == "int":
        _, op, r, a, b = v[1]
        # x.checked_add(1).unwrap_or(0): the only overflowing case is x == MAX, where x + 1 wraps to 0
        if op == "checked_add" and not d[1][3] and d[1][2] == 0 and ((not b[1][3] and b[1][2] == 1) or (not a[1][3] and a[1][2] == 1)):
            return r
        # x.checked_sub(1).unwrap_or(MAX): the only overflowing case is x == 0, where x - 1 wraps to MAX
        if op == "checked_sub" and not d[1][3] and d[1][2] == (1 << d[1][1]) - 1 and not b[1][3] and b[1][2] == 1:
            return r
        return vint(T.ifn(d[1][1], "checked_or_default", r[1], d[1]))
    if v[0] != "enum":
        raise Undecided("unwrap_or on %s" % v[0])
    return v[4][0] if v[3] in ("Some", "Ok") else d


@prim("core::slice::<impl [T]>::first_mut", "core::slice::<impl [T]>::first")
def first_mut(ip, st, ci):
    tg = tg_of(ci["args"][0])
    esz = ip.sizeof(crate(ci), fn_targs(ci)[0])
    total = ip.tlen(st, tg)
    out = []
    for s2, nonempty in fork_on(st, ("ge", total - esz)):
        out.append((s2, vsome(vref(ip.br(tg, ZERO, esz))) if nonempty else vnone()))
    return out


@prim("Array::last", "Array::first")
def array_last(ip, st, ci):
    tg = tg_of(ci["args"][0])
    esz = ip.sizeof(crate(ci), fn_targs(ci)[0])
    total = ip.tlen(st, tg)
    off = total - esz if ci["fn"]["name"] == "last" else ZERO
    out = []
    for s2, nonempty in fork_on(st, ("ge", total - esz)):
        out.append((s2, vsome(vref(ip.br(tg, off, esz))) if nonempty else vnone()))
    return out


@prim("Zeroize::zeroize")
def zeroize(ip, st, ci):
    tg = tg_of(ci["args"][0])
    v = ip.load(st, tg)
    if v[0] == "bytes":
        ip.store(st, tg, vbytes(T.bzero(T.blen(v[1]))))
    elif v[0] == "int":
        ip.store(st, tg, vint(T.iconst(v[1][1], 0)))
    elif v[0] == "size":
        ip.store(st, tg, vsize(0))
    else:
        raise Undecided("zeroize of %s" % v[0])
    return vunit()


@prim("core::slice::<impl [T]>::is_empty")
def slice_is_empty(ip, st, ci):
    tg = tg_of(ci["args"][0])
    return vbool(("eq", ip.tlen(st, tg)))


@prim("core::cmp::min", "core::cmp::Ord::min")
def cmp_min(ip, st, ci):
    a, b = ci["args"]
    if a[0] == "size" and b[0] == "size":
        out = []
        for s2, le in fork_on(st, ("ge", b[1] - a[1])):
            out.append((s2, a if le else b))
        return out
    raise Undecided("min of %s" % a[0])


@prim("InOutBuf::get")
def iobuf_get(ip, st, ci):
    b = iob(ip, st, ci["args"][0])
    pos = ci["args"][1]
    total = ip.tlen(st, b[1])
    ok = st.F.prove_ge(pos[1]) and st.F.prove_ge(total - (pos[1] + 1) * b[3])
    oblig(st, ci, "bounds:InOutBuf::get", ok, "%r < %r/%r" % (pos[1], total, b[3]))
    if not ok:
        st.F.add_ge(pos[1])
        st.F.add_ge(total - (pos[1] + 1) * b[3])
    return mk_inout(ip.br(b[1], pos[1] * b[3], b[3]), ip.br(b[2], pos[1] * b[3], b[3]))


@prim("core::slice::<impl [T]>::swap")
def slice_swap(ip, st, ci):
    tg = tg_of(ci["args"][0])
    i, j = ci["args"][1], ci["args"][2]
    esz = ip.sizeof(crate(ci), fn_targs(ci)[0])
    total = ip.tlen(st, tg)
    for x in (i, j):
        ok = st.F.prove_ge(x[1]) and st.F.prove_ge(total - (x[1] + 1) * esz)
        oblig(st, ci, "bounds:swap", ok, "%r < %r/%r" % (x[1], total, esz))
        if not ok:
            st.F.add_ge(x[1])
            st.F.add_ge(total - (x[1] + 1) * esz)
    a = ip.br(tg, i[1] * esz, esz)
    b = ip.br(tg, j[1] * esz, esz)
    va, vb = ip.load(st, a), ip.load(st, b)
    ip.store(st, a, vb)
    ip.store(st, b, va)
    return vunit()


# ---------------------------------------------------------------- more iterator / slice / closure vocabulary
@prim("core::iter::once")
def iter_once(ip, st, ci):
    return ("iter", "once", ci["args"][0])


@prim("Iterator::chain")
def iter_chain(ip, st, ci):
    a = _as_iter(ip, st, ci, ci["args"][0], ci["argops"][0])
    b = _as_iter(ip, st, ci, ci["args"][1], ci["argops"][1])
    return ("iter", "chain", a, b)


@prim("Iterator::enumerate")
def iter_enumerate(ip, st, ci):
    a = _as_iter(ip, st, ci, ci["args"][0], ci["argops"][0])
    return ("iter", "enumerate", a)


@prim("Iterator::rev")
def iter_rev(ip, st, ci):
    a = _as_iter(ip, st, ci, ci["args"][0], ci["argops"][0])
    return ("iter", "rev", a)


@prim("core::slice::<impl [T]>::copy_within")
def copy_within(ip, st, ci):
    tg = tg_of(ci["args"][0])
    src = ci["args"][1]
    dest = ci["args"][2]
    esz = ip.sizeof(crate(ci), fn_targs(ci)[0])
    total = ip.tlen(st, tg)
    lo, hi = ZERO, None
    if src[0] == "range":
        lo, hi = src[1][1], src[2][1]
    elif src[0] == "struct" and src[1].endswith("RangeFrom"):
        lo = src[2]["start"][1]
    elif src[0] == "struct" and src[1].endswith("RangeTo"):
        hi = src[2]["end"][1]
    elif src[0] == "zst" and src[1].endswith("RangeFull"):
        pass
    else:
        raise Undecided("copy_within source %s" % (src[:2],))
    hb = total if hi is None else hi * esz
    lb = lo * esz
    n = hb - lb
    db = dest[1] * esz
    ok = st.F.prove_ge(lb) and st.F.prove_ge(n) and st.F.prove_ge(total - hb) and st.F.prove_ge(db) and st.F.prove_ge(total - db - n)
    oblig(st, ci, "bounds:copy_within", ok, "src [%r,%r) dest %r in %r" % (lb, hb, db, total))
    if not ok:
        for g in (lb, n, total - hb, db, total - db - n):
            st.F.add_ge(g)
    v = ip.load(st, ip.br(tg, lb, n))
    ip.store(st, ip.br(tg, db, n), v)
    return vunit()


@prim("core::slice::<impl [T]>::split_first_mut", "core::slice::<impl [T]>::split_first")
def split_first_mut(ip, st, ci):
    tg = tg_of(ci["args"][0])
    esz = ip.sizeof(crate(ci), fn_targs(ci)[0])
    total = ip.tlen(st, tg)
    out = []
    for s2, nonempty in fork_on(st, ("ge", total - esz)):
        if nonempty:
            first = vref(ip.br(tg, ZERO, esz))
            rest = vref(ip.br(tg, esz, total - esz))
            out.append((s2, vsome(("tuple", [first, rest]))))
        else:
            out.append((s2, vnone()))
    return out


@prim("core::slice::<impl [T]>::get", "core::slice::<impl [T]>::get_mut")
def slice_get(ip, st, ci):
    """get(i) / get(a..b) / get(a..) / get(..b): Some(in-bounds element or sub-slice) or None."""
    tg = tg_of(ci["args"][0])
    idx = ci["args"][1]
    esz = ip.sizeof(crate(ci), fn_targs(ci)[0])
    total = ip.tlen(st, tg)
    if idx[0] == "size":
        lo, ln, conds = idx[1] * esz, esz, [("ge", total - (idx[1] + 1) * esz)]
    elif idx[0] == "range":
        lo, hi = idx[1][1] * esz, idx[2][1] * esz
        ln, conds = hi - lo, [("ge", hi - lo), ("ge", total - hi)]
    elif idx[0] == "struct" and idx[1].endswith("RangeFrom"):
        lo = idx[2]["start"][1] * esz
        ln, conds = total - lo, [("ge", total - lo)]
    elif idx[0] == "struct" and idx[1].endswith("RangeTo"):
        lo, ln = ZERO, idx[2]["end"][1] * esz
        conds = [("ge", total - ln)]
    else:
        raise Undecided("slice get with %s" % (idx[:2],))
    states = [(st, True)]
    for c in conds:
        nxt = []
        for s, ok in states:
            if not ok:
                nxt.append((s, False))
                continue
            nxt.extend(fork_on(s, c))
        states = nxt
    out = []
    for s, ok in states:
        out.append((s, vsome(vref(ip.br(tg, lo, ln))) if ok else vnone()))
    return out


def _const_generic(ci, ip=None):
    """value of the (single) const generic argument of the callee, as a Lin."""
    for a in ci["fn"].get("resolved", ci["fn"]).get("args", []) + ci["fn"].get("args", []):
        if "const" in a:
            c = a["const"]
            if isinstance(c, int):
                return lin(c)
            if isinstance(c, str) and c.strip().split("_")[0].isdigit():
                return lin(int(c.strip().split("_")[0]))
            if ip is not None and isinstance(c, str):
                # a const parameter of the calling helper (`fn chunk<const N: usize>`), forwarded
                b = ip.tyenv[-1].get(c.strip())
                if isinstance(b, tuple) and b[0] == "constval" and str(b[1]).strip().split("_")[0].isdigit():
                    return lin(int(str(b[1]).strip().split("_")[0]))
    raise Undecided("const generic argument of %s" % ci["fn"]["path"])


@prim("core::slice::<impl [T]>::split_first_chunk", "core::slice::<impl [T]>::split_first_chunk_mut",
      "core::slice::<impl [T]>::split_last_chunk", "core::slice::<impl [T]>::split_last_chunk_mut",
      "core::slice::<impl [T]>::first_chunk", "core::slice::<impl [T]>::first_chunk_mut",
      "core::slice::<impl [T]>::last_chunk", "core::slice::<impl [T]>::last_chunk_mut")
def split_chunk(ip, st, ci):
    """split_first_chunk::<N>() -> Option<(&[T; N], &[T])> and its siblings."""
    tg = tg_of(ci["args"][0])
    esz = ip.sizeof(crate(ci), fn_targs(ci)[0])
    n = _const_generic(ci, ip) * esz
    total = ip.tlen(st, tg)
    name = ci["fn"]["name"]
    out = []
    for s2, fits in fork_on(st, ("ge", total - n)):
        if not fits:
            out.append((s2, vnone()))
            continue
        first = name.startswith(("split_first", "first"))
        chunk = vref(ip.br(tg, ZERO, n) if first else ip.br(tg, total - n, n))
        rest = vref(ip.br(tg, n, total - n) if first else ip.br(tg, ZERO, total - n))
        if name.startswith("split_first"):
            out.append((s2, vsome(("tuple", [chunk, rest]))))
        elif name.startswith("split_last"):
            out.append((s2, vsome(("tuple", [rest, chunk]))))
        else:
            out.append((s2, vsome(chunk)))
    return out


@prim("ops::BitXor::bitxor", "ops::BitXorAssign::bitxor_assign")
def op_bitxor(ip, st, ci):
    """`a ^ b` / `a ^= b` through the operator traits (reference operands)."""
    a, b = ci["args"]
    assign = ci["fn"]["name"] == "bitxor_assign"
    dst = None
    if assign:
        dst = tg_of(a)
        a = ip.load(st, dst)
    while a[0] == "ref":
        a = ip.load(st, a[1])
    while b[0] == "ref":
        b = ip.load(st, b[1])
    r = ip.binop(st, ci["fr"], "BitXor", a, b)
    if assign:
        ip.store(st, dst, r)
        return vunit()
    return r


@prim("ops::Fn::call", "ops::FnMut::call_mut", "ops::FnOnce::call_once")
def fn_call(ip, st, ci):
    f = ci["args"][0]
    if f[0] == "ref":
        f = ip.load(st, f[1])
    tup = ci["args"][1]
    args = list(tup[1]) if tup[0] == "tuple" else ([] if tup[0] == "unit" else [tup])
    if f[0] == "closure":
        return _call_closure(ip, st, ci, f, args)
    if f[0] == "fn":
        ci2 = dict(ci)
        ci2["fn"] = f[1]
        ci2["args"] = args
        ci2["argops"] = [ci["argops"][1]] * len(args)
        return ip.call(st, ci2)
    raise Undecided("call of %s value" % f[0])


@prim("core::slice::<impl [T]>::chunks_exact")
def chunks_exact_alias(ip, st, ci):
    return chunks_exact_mut(ip, st, ci)


@prim("::checked_add", "::checked_sub", "::checked_mul")
def checked_arith(ip, st, ci):
    a, b = ci["args"]
    op = ci["fn"]["name"]
    if a[0] == "size" and b[0] == "size":
        if op == "checked_add":
            return vsome(vsize(a[1] + b[1]))
        if op == "checked_mul":
            return vsome(vsize(a[1] * b[1]))
        out = []
        for s2, ge in fork_on(st, ("ge", a[1] - b[1])):
            out.append((s2, vsome(vsize(a[1] - b[1])) if ge else vnone()))
        return out
    if a[0] == "int" and b[0] == "int":
        r = {"checked_add": T.iadd(a[1], b[1]), "checked_sub": T.isub(a[1], b[1])}.get(op)
        if r is None:
            r = T.ifn(a[1][1], "Mul", a[1], b[1])
        if op == "checked_sub" and not a[1][3] and a[1][2] == (1 << a[1][1]) - 1:
            return vsome(vint(r))      # MAX - x never underflows
        # None exactly when the w-bit operation overflows: not decidable for symbolic operands
        return ("symopt", ("checked", op, vint(r), a, b))
    raise Undecided("%s on %s,%s" % (op, a[0], b[0]))


@prim("::overflowing_add", "::overflowing_sub")
def overflowing_arith(ip, st, ci):
    a, b = ci["args"]
    op = ci["fn"]["name"]
    if a[0] == "int" and b[0] == "int":
        r = T.iadd(a[1], b[1]) if op == "overflowing_add" else T.isub(a[1], b[1])
        return ("tuple", [vint(r), ("bool", ("opaque", "int-overflow", op, T.ishow(a[1]), T.ishow(b[1])))])
    raise Undecided("%s on %s,%s" % (op, a[0], b[0]))


@prim("core::slice::<impl [T]>::rotate_left", "core::slice::<impl [T]>::rotate_right")
def slice_rotate(ip, st, ci):
    tg = tg_of(ci["args"][0])
    k = ci["args"][1]
    esz = ip.sizeof(crate(ci), fn_targs(ci)[0])
    total = ip.tlen(st, tg)
    kb = k[1] * esz
    ok = st.F.prove_ge(kb) and st.F.prove_ge(total - kb)
    oblig(st, ci, "bounds:rotate", ok, "%r <= %r" % (kb, total))
    if not ok:
        st.F.add_ge(kb)
        st.F.add_ge(total - kb)
    v = ip.load(st, ip.br(tg, ZERO, total))[1]
    if ci["fn"]["name"] == "rotate_left":
        nv = T.bnorm(T.bslice(v, kb, total - kb, st.F) + T.bslice(v, ZERO, kb, st.F), st.F)
    else:
        nv = T.bnorm(T.bslice(v, total - kb, kb, st.F) + T.bslice(v, ZERO, total - kb, st.F), st.F)
    ip.store(st, ip.br(tg, ZERO, total), vbytes(nv))
    return vunit()


@prim("core::slice::<impl [T]>::split_at_mut_checked", "core::slice::<impl [T]>::split_at_checked")
def split_at_checked(ip, st, ci):
    tg = tg_of(ci["args"][0])
    mid = ci["args"][1]
    esz = ip.sizeof(crate(ci), fn_targs(ci)[0])
    total = ip.tlen(st, tg)
    m = mid[1] * esz
    out = []
    for s2, fits in fork_on(st, ("ge", total - m)):
        if fits:
            out.append((s2, vsome(("tuple", [vref(ip.br(tg, ZERO, m)), vref(ip.br(tg, m, total - m))]))))
        else:
            out.append((s2, vnone()))
    return out


@prim("core::slice::<impl [T]>::fill")
def slice_fill(ip, st, ci):
    tg = tg_of(ci["args"][0])
    v = ci["args"][1]
    total = ip.tlen(st, tg)
    v = ip.encode(st, v) if v[0] == "int" else v
    if v[0] == "bytes":
        esz = T.blen(v[1])
        n = count_of(st, total, esz)
        j = T.fresh("$f")
        ip.store(st, ip.br(tg, ZERO, total), vbytes(T.bnorm((("m", j, ZERO, n, esz, v[1]),), st.F)))
        return vunit()
    raise Undecided("fill with %s" % v[0])


@prim("from_fn")
def array_from_fn(ip, st, ci):
    """Array::from_fn(|i| ..) / core::array::from_fn: element i is the callback's result for i."""
    from .loops import summarise_call_loop
    cr = crate(ci)
    dty = dest_ty(ip, ci)
    if not ip.is_bytes_ty(cr, dty):
        raise Undecided("from_fn for a non-array type")
    esz = ip.sizeof(cr, ip.elem_ty(cr, dty))
    total = ip.sizeof(cr, dty)
    n = count_of(st, total, esz)
    clo = ci["args"][0]
    cell = ("tmp", "from_fn%d" % len(st.heap))
    st.heap[cell] = vbytes(T.bzero(total))

    def runner(s, idx):
        out = []
        res = _call_closure(ip, s, ci, clo, [vsize(idx)]) if clo[0] == "closure" else None
        if res is None:
            raise Undecided("from_fn with %s callback" % clo[0])
        for s2, r in res:
            r = ip.encode(s2, r)
            if r[0] != "bytes":
                raise Undecided("from_fn element is %s" % r[0])
            ip.store(s2, Target(cell, (("br", lin(idx) * esz, esz),)), r)
            out.append(s2)
        return out
    states = summarise_call_loop(ip, st, ci["fr"], n, runner)
    return [(s, s.heap[cell]) for s in states]


@prim("Iterator::collect", "iter::FromIterator::from_iter")
def iter_collect(ip, st, ci):
    """collect() into a hybrid-array `Array` (its FromIterator panics unless the iterator yields exactly
    as many items as the array has elements): element i is item i."""
    from .loops import summarise_call_loop
    cr = crate(ci)
    dty = dest_ty(ip, ci)
    if not ip.is_bytes_ty(cr, dty) or cr.types[dty]["k"] != "adt":
        raise Undecided("collect into %s" % cr.types[dty]["s"])
    it = _as_iter(ip, st, ci, ci["args"][0], ci["argops"][0])
    if iter_breaks(ip, st, it):
        raise Undecided("collect of a chained iterator")
    esz = ip.sizeof(cr, ip.elem_ty(cr, dty))
    total = ip.sizeof(cr, dty)
    n = count_of(st, total, esz)
    N = iter_count(ip, st, it)
    ok = st.F.prove_eq(N - n)
    oblig(st, ci, "len:collect", ok, "iterator yields %r items for an array of %r" % (N, n))
    if not ok:
        st.F.add_eq(N - n)
    cell = ("tmp", "collect%d" % len(st.heap))
    st.heap[cell] = vbytes(T.bzero(total))

    def runner(s, idx):
        out = []
        for s2, r in iter_elem_multi(ip, s, it, idx):
            if r[0] == "ref":
                raise Undecided("collect of references")
            r = ip.encode(s2, r)
            if r[0] != "bytes":
                raise Undecided("collected element is %s" % r[0])
            ip.store(s2, Target(cell, (("br", lin(idx) * esz, esz),)), r)
            out.append(s2)
        return out
    states = summarise_call_loop(ip, st, ci["fr"], n, runner)
    return [(s, s.heap[cell]) for s in states]


@prim("core::num::<impl u8>::rotate_left", "::saturating_add", "::saturating_sub", "::saturating_mul", "::swap_bytes", "::reverse_bits", "::pow", "::leading_zeros")
def int_opaque(ip, st, ci):
    a = ci["args"][0]
    op = ci["fn"]["name"]
    if a[0] == "int":
        args = [x[1] if x[0] in ("int", "size") else repr(x) for x in ci["args"]]
        return vint(T.ifn(a[1][1], op, *args))
    if a[0] == "size" and op == "saturating_sub" and ci["args"][1][0] == "size":
        return usize_saturating_sub(ip, st, ci)
    raise Undecided("%s on %s" % (op, a[0]))


@prim("<impl usize>::trailing_zeros", "<impl usize>::leading_zeros", "<impl usize>::count_ones", "<impl usize>::is_power_of_two", "<impl usize>::next_power_of_two")
def usize_opaque(ip, st, ci):
    a = ci["args"][0]
    key = "$%s(%r)" % (ci["fn"]["name"], a[1])
    if ci["fn"]["name"] == "is_power_of_two":
        return ("bool", ("opaque", key))
    st.F.add_ge(Lin.sym(key))
    return vsize(Lin.sym(key))


@prim("Iterator::for_each")
def iter_for_each(ip, st, ci):
    """for_each(closure): summarised like a loop whose body is one call of the closure per element."""
    from .loops import summarise_call_loop
    it0 = _as_iter(ip, st, ci, ci["args"][0], ci["argops"][0])
    clo = ci["args"][1]
    results = []
    for s0, segs in iter_segments(ip, st, it0):
        states = [s0]
        for lo, cnt in segs:
            seg_it = it0 if len(segs) == 1 else ("iter", "win", it0, lo, cnt)
            nxt = []
            for s in states:
                nxt.extend(_for_each_segment(ip, s, ci, seg_it, clo))
            states = nxt
        results.extend(states)
    return [(s, vunit()) for s in results]


def _for_each_segment(ip, st, ci, it, clo):
    from .loops import summarise_call_loop
    N = iter_count(ip, st, it)

    def runner(s, idx):
        out = []
        for s2, e in iter_elem_multi(ip, s, it, idx):
            if clo[0] in ("closure", "ref"):
                res = _call_closure(ip, s2, ci, clo, [e])
            elif clo[0] == "fn":
                ci2 = dict(ci)
                ci2["fn"] = clo[1]
                ci2["args"] = [e]
                ci2["argops"] = [ci["argops"][0]]
                res = ip.call(s2, ci2)
            else:
                raise Undecided("for_each with %s callback" % clo[0])
            out.extend(s3 for s3, _ in res)
        return out
    return summarise_call_loop(ip, st, ci["fr"], N, runner)


@prim("Iterator::skip", "Iterator::take")
def iter_skip_take(ip, st, ci):
    a = _as_iter(ip, st, ci, ci["args"][0], ci["argops"][0])
    k = ci["args"][1]
    if k[0] != "size":
        raise Undecided("skip/take count")
    r = ("iter", ci["fn"]["name"], a, k[1])
    try:
        n = iter_count(ip, st, a)
    except Undecided:
        return r
    if not st.F.le(k[1], n) and not st.F.le(n, k[1]):
        # which of the two bounds ends the iterator is a case split of the caller's path
        return [(s2, r) for s2, _ in fork_on(st, ("ge", n - k[1]))]
    return r


class _Ctx(dict):
    """the part of a call context an adaptor needs later (hashable by identity)."""

    def __init__(self, fr):
        dict.__init__(self, fr=fr)

    def __hash__(self):
        return id(self)


@prim("Iterator::map")
def iter_map(ip, st, ci):
    a = _as_iter(ip, st, ci, ci["args"][0], ci["argops"][0])
    return ("iter", "map", a, ci["args"][1], _Ctx(ci["fr"]))


@prim("Iterator::step_by")
def iter_step_by(ip, st, ci):
    a = _as_iter(ip, st, ci, ci["args"][0], ci["argops"][0])
    k = ci["args"][1]
    if k[0] != "size" or not st.F.prove_ge(k[1] - 1):
        raise Undecided("step_by with a step not known to be positive")
    return ("iter", "step_by", a, k[1])


@prim("Iterator::nth")
def iter_nth(ip, st, ci):
    tg = tg_of(ci["args"][0])
    it = ip.load(st, tg)
    k = ci["args"][1]
    if it[0] != "iter" or k[0] != "size":
        raise Undecided("nth on %s" % it[0])
    N = iter_count(ip, st, it)
    out = []
    for s2, inside in fork_on(st, ("ge", N - 1 - k[1])):
        if not inside:
            ip.store(s2, tg, ("iter", "win", it, N, ZERO))
            out.append((s2, vnone()))
            continue
        for s3, e in iter_elem_multi(ip, s2, it, k[1]):
            ip.store(s3, tg, ("iter", "win", it, k[1] + 1, N - k[1] - 1))
            out.append((s3, vsome(e)))
    return out


@prim("Iterator::last")
def iter_last(ip, st, ci):
    it = _as_iter(ip, st, ci, ci["args"][0], ci["argops"][0])
    N = iter_count(ip, st, it)
    out = []
    for s2, nonempty in fork_on(st, ("ge", N - 1)):
        if not nonempty:
            out.append((s2, vnone()))
            continue
        for s3, e in iter_elem_multi(ip, s2, it, N - 1):
            out.append((s3, vsome(e)))
    return out


@prim("Iterator::count", "ExactSizeIterator::len")
def iter_len(ip, st, ci):
    v = ci["args"][0]
    it = ip.load(st, v[1]) if v[0] == "ref" else v
    if it[0] != "iter":
        return None
    return vsize(iter_count(ip, st, it))


@prim("core::slice::<impl [T]>::windows")
def slice_windows(ip, st, ci):
    tg = tg_of(ci["args"][0])
    n = ci["args"][1]
    esz = ip.sizeof(crate(ci), fn_targs(ci)[0])
    total = ip.tlen(st, tg)
    cnt_el = count_of(st, total, esz)
    ok = st.F.prove_ge(n[1] - 1)
    oblig(st, ci, "nonzero:windows", ok, "%r != 0" % (n[1],))
    if st.F.prove_ge(cnt_el - n[1] + 1):
        # len >= n - 1: the count len - n + 1 is itself non-negative (possibly zero), no case split
        return ("iter", "windows", tg, esz, n[1], cnt_el - n[1] + 1)
    out = []
    for s2, some in fork_on(st, ("ge", cnt_el - n[1])):
        out.append((s2, ("iter", "windows", tg, esz, n[1], (cnt_el - n[1] + 1) if some else ZERO)))
    return out


@prim("core::slice::<impl [T]>::chunks_mut", "core::slice::<impl [T]>::chunks")
def slice_chunks(ip, st, ci):
    """chunks(n): the whole chunks followed, when the length is not a multiple, by the shorter rest."""
    tg = tg_of(ci["args"][0])
    n = ci["args"][1]
    esz = ip.sizeof(crate(ci), fn_targs(ci)[0])
    total = ip.tlen(st, tg)
    chunk = n[1] * esz
    ok = st.F.prove_ge(chunk - 1)
    oblig(st, ci, "nonzero:chunks", ok, "%r != 0" % (chunk,))
    k, d = decompose(st, total, chunk)
    whole = ("iter", "chunks", tg, total, chunk, k, d)
    out = []
    for s2, rest in fork_on(st, ("ge", d - 1)):
        if rest:
            out.append((s2, ("iter", "chain", whole, ("iter", "once", vref(ip.br(tg, k * chunk, d))))))
        else:
            out.append((s2, whole))
    return out


@prim("Array::<T, U>::slice_as_chunks", "Array::<T, U>::slice_as_chunks_mut", "Array::slice_as_chunks", "Array::slice_as_chunks_mut")
def array_slice_as_chunks(ip, st, ci):
    """hybrid_array: a slice viewed as (whole `Array<T, U>` chunks, remainder)."""
    tg = tg_of(ci["args"][0])
    targs = fn_targs(ci)
    if len(targs) < 2:
        raise Undecided("slice_as_chunks without type arguments")
    cr = crate(ci)
    chunk = ip.sizeof(cr, targs[0]) * ip.tn_lin(cr, targs[1])
    total = ip.tlen(st, tg)
    oblig(st, ci, "nonzero:slice_as_chunks", st.F.prove_ge(chunk - 1), "%r != 0" % (chunk,))
    k, d = decompose(st, total, chunk)
    return ("tuple", [vref(ip.br(tg, ZERO, k * chunk)), vref(ip.br(tg, k * chunk, d))])


@prim("core::slice::<impl [T]>::rchunks_mut", "core::slice::<impl [T]>::rchunks")
def slice_rchunks(ip, st, ci):
    """rchunks(n): whole chunks from the end followed, when the length is not a multiple, by the
    shorter rest at the front."""
    tg = tg_of(ci["args"][0])
    n = ci["args"][1]
    esz = ip.sizeof(crate(ci), fn_targs(ci)[0])
    total = ip.tlen(st, tg)
    chunk = n[1] * esz
    ok = st.F.prove_ge(chunk - 1)
    oblig(st, ci, "nonzero:rchunks", ok, "%r != 0" % (chunk,))
    k, d = decompose(st, total, chunk)
    whole = ("iter", "rchunks", tg, total, chunk, k, d)
    out = []
    for s2, rest in fork_on(st, ("ge", d - 1)):
        if rest:
            out.append((s2, ("iter", "chain", whole, ("iter", "once", vref(ip.br(tg, ZERO, d))))))
        else:
            out.append((s2, whole))
    return out


@prim("Iterator::copied", "Iterator::cloned")
def iter_copied(ip, st, ci):
    a = _as_iter(ip, st, ci, ci["args"][0], ci["argops"][0])
    return ("iter", "copied", a)


# ---------------------------------------------------------------- abstract iterators
def iter_count(ip, st, it):
    """number of elements (a size form)."""
    k = it[1]
    if k == "range":
        n = it[3] - it[2]
        if not st.F.prove_ge(n):
            raise Undecided("range %r..%r may be reversed" % (it[2], it[3]))
        return n
    if k == "slice":
        return it[4]
    if k == "iobuf":
        return it[5]
    if k == "chunks":
        return it[5]
    if k == "once":
        return ONE
    if k == "map":
        return iter_count(ip, st, it[2])
    if k == "windows":
        return it[5]
    if k == "step_by":
        n = iter_count(ip, st, it[2])
        q, r = decompose(st, n, it[3])
        if st.F.prove_eq(r):
            return q
        if st.F.prove_ge(r - 1):
            return q + 1
        raise Undecided("step_by over a length whose remainder is undecided")
    if k == "irange":
        if it[4] is None:
            raise Undecided("unbounded integer range")
        return it[4]
    if k == "urange":
        raise Undecided("unbounded range")
    if k == "rchunks":
        return it[5]
    if k == "win":
        return it[4]
    if k == "zip":
        # an unbounded side never ends the zip
        if _unbounded(ip, st, it[2]):
            return iter_count(ip, st, it[3])
        if _unbounded(ip, st, it[3]):
            return iter_count(ip, st, it[2])
        a = iter_count(ip, st, it[2])
        b = iter_count(ip, st, it[3])
        if st.F.le(a, b):
            return a
        if st.F.le(b, a):
            return b
        raise Undecided("zip of lengths %r and %r" % (a, b))
    if k == "chain":
        return iter_count(ip, st, it[2]) + iter_count(ip, st, it[3])
    if k in ("enumerate", "rev", "copied"):
        return iter_count(ip, st, it[2])
    if k == "skip":
        n = iter_count(ip, st, it[2])
        if st.F.le(it[3], n):
            return n - it[3]
        if st.F.le(n, it[3]):
            return ZERO
        raise Undecided("skip(%r) of %r elements" % (it[3], n))
    if k == "take":
        n = iter_count(ip, st, it[2])
        if st.F.le(it[3], n):
            return it[3]
        if st.F.le(n, it[3]):
            return n
        raise Undecided("take(%r) of %r elements" % (it[3], n))
    if k == "ref":
        return iter_count(ip, st, ip.load(st, it[2]))
    raise Undecided("iterator kind %s" % k)


def _unbounded(ip, st, it):
    k = it[1]
    if k == "urange" or (k == "irange" and it[4] is None):
        return True
    if k in ("enumerate", "copied", "skip"):
        return _unbounded(ip, st, it[2])
    if k == "ref":
        return _unbounded(ip, st, ip.load(st, it[2]))
    return False


def iter_elem_multi(ip, st, it, i):
    """[(state, element i)] — adaptors such as chain need a case split on the index."""
    k = it[1]
    i = lin(i)
    if k == "map":
        out = []
        for s2, e in iter_elem_multi(ip, st, it[2], i):
            out.extend(_call_closure(ip, s2, it[4], it[3], [e]))
        return out
    if k == "windows":
        return [(st, vref(ip.br(it[2], i * it[3], it[4] * it[3])))]
    if k == "step_by":
        return iter_elem_multi(ip, st, it[2], i * it[3])
    if k == "irange":
        return [(st, vint(T.iadd(it[3], T.isize(it[2], i))))]
    if k == "urange":
        return [(st, vsize(it[2] + i))]
    if k == "rchunks":
        return [(st, vref(ip.br(it[2], it[3] - (i + 1) * it[4], it[4])))]
    if k == "range":
        return [(st, vsize(it[2] + i))]
    if k == "slice":
        return [(st, vref(ip.br(it[2], i * it[3], it[3])))]
    if k == "iobuf":
        return [(st, mk_inout(ip.br(it[2], i * it[4], it[4]), ip.br(it[3], i * it[4], it[4])))]
    if k == "chunks":
        return [(st, vref(ip.br(it[2], i * it[4], it[4])))]
    if k == "once":
        return [(st, it[2])]
    if k in ("skip", "win"):
        return iter_elem_multi(ip, st, it[2], i + it[3])
    if k == "take":
        return iter_elem_multi(ip, st, it[2], i)
    if k == "copied":
        return [(s2, ip.load(s2, tg_of(e))) for s2, e in iter_elem_multi(ip, st, it[2], i)]
    if k == "rev":
        n = iter_count(ip, st, it[2])
        return iter_elem_multi(ip, st, it[2], n - 1 - i)
    if k == "chain":
        na = iter_count(ip, st, it[2])
        out = []
        for s2, first in fork_on(st, ("lt", i - na)):
            if first:
                out.extend(iter_elem_multi(ip, s2, it[2], i))
            else:
                out.extend(iter_elem_multi(ip, s2, it[3], i - na))
        return out
    if k == "zip":
        out = []
        for s2, a in iter_elem_multi(ip, st, it[2], i):
            for s3, b in iter_elem_multi(ip, s2, it[3], i):
                out.append((s3, ("tuple", [a, b])))
        return out
    if k == "enumerate":
        return [(s2, ("tuple", [vsize(i), e])) for s2, e in iter_elem_multi(ip, st, it[2], i)]
    if k == "ref":
        return iter_elem_multi(ip, st, ip.load(st, it[2]), i)
    raise Undecided("iterator kind %s" % k)


def iter_elem(ip, st, it, i):
    r = iter_elem_multi(ip, st, it, i)
    if len(r) != 1:
        raise Undecided("iterator element needs a case split")
    return r[0][1]


@prim("Iterator::by_ref")
def iter_by_ref(ip, st, ci):
    v = ci["args"][0]
    if v[0] == "ref":
        pv = ip.load(st, v[1])
        if pv[0] == "iter":
            return v      # `&mut I` is itself an iterator over the same elements
    raise Undecided("by_ref of %s" % v[0])


@prim("Iterator::fold")
def iter_fold(ip, st, ci):
    """fold(init, f): a loop whose carried state is the accumulator."""
    from .loops import summarise_call_loop
    it = _as_iter(ip, st, ci, ci["args"][0], ci["argops"][0])
    init, clo = ci["args"][1], ci["args"][2]
    N = iter_count(ip, st, it)
    cell = ("tmp", "fold%d" % len(st.heap))
    st.heap[cell] = init

    def runner(s, idx):
        out = []
        for s2, e in iter_elem_multi(ip, s, it, idx):
            acc = ip.load(s2, Target(cell))
            if clo[0] != "closure":
                raise Undecided("fold with %s callback" % clo[0])
            for s3, r in _call_closure(ip, s2, ci, clo, [acc, e]):
                ip.store(s3, Target(cell), r)
                out.append(s3)
        return out
    states = summarise_call_loop(ip, st, ci["fr"], N, runner)
    return [(s, s.heap[cell]) for s in states]


@prim("clone::Clone::clone_from")
def clone_clone_from(ip, st, ci):
    dst, src = tg_of(ci["args"][0]), tg_of(ci["args"][1])
    body = ip.find_body(ci["fr"].crate, ci["fn"])
    if body is not None:
        return None      # a workspace type's own clone_from: inline it
    ip.store(st, dst, ip.load(st, src))
    return vunit()
