// bmsa-driver: rustc_private driver that dumps items + MIR of a crate as JSON.
// Used as RUSTC_WRAPPER / RUSTC_WORKSPACE_WRAPPER under `cargo +nightly check`.
//
// env BMSA_OUT    directory to write <crate>.json into (required to dump)
// env BMSA_CRATES comma separated crate names to dump (others compile normally)
#![feature(rustc_private)]
#![allow(clippy::all)]

extern crate rustc_abi;
extern crate rustc_driver;
extern crate rustc_hir;
extern crate rustc_interface;
extern crate rustc_lint;
extern crate rustc_middle;
extern crate rustc_session;
extern crate rustc_span;

use rustc_driver::Compilation;
use rustc_hir::def::DefKind;
use rustc_hir::def_id::{DefId, LocalDefId, LOCAL_CRATE};
use rustc_interface::interface::Compiler;
use rustc_middle::mir::{
    AggregateKind, BasicBlockData, Body, BorrowKind, CastKind, Const as MirConst, Operand, Place,
    PlaceElem, Rvalue, StatementKind, TerminatorKind, UnwindAction,
};
use rustc_middle::ty::{self, GenericArgKind, Instance, Ty, TyCtxt, TypingEnv};
use std::collections::HashMap;
use std::fmt::Write as _;

// ---------------------------------------------------------------- JSON
#[derive(Clone)]
enum J {
    Null,
    B(bool),
    N(i64),
    S(String),
    A(Vec<J>),
    O(Vec<(&'static str, J)>),
}
fn esc(s: &str, out: &mut String) {
    out.push('"');
    for c in s.chars() {
        match c {
            '"' => out.push_str("\\\""),
            '\\' => out.push_str("\\\\"),
            '\n' => out.push_str("\\n"),
            '\r' => out.push_str("\\r"),
            '\t' => out.push_str("\\t"),
            c if (c as u32) < 0x20 => {
                let _ = write!(out, "\\u{:04x}", c as u32);
            }
            c => out.push(c),
        }
    }
    out.push('"');
}
impl J {
    fn write(&self, out: &mut String) {
        match self {
            J::Null => out.push_str("null"),
            J::B(b) => out.push_str(if *b { "true" } else { "false" }),
            J::N(n) => {
                let _ = write!(out, "{}", n);
            }
            J::S(s) => esc(s, out),
            J::A(v) => {
                out.push('[');
                for (i, x) in v.iter().enumerate() {
                    if i > 0 {
                        out.push(',');
                    }
                    x.write(out);
                }
                out.push(']');
            }
            J::O(v) => {
                out.push('{');
                for (i, (k, x)) in v.iter().enumerate() {
                    if i > 0 {
                        out.push(',');
                    }
                    esc(k, out);
                    out.push(':');
                    x.write(out);
                }
                out.push('}');
            }
        }
    }
}
fn s<T: ToString>(x: T) -> J {
    J::S(x.to_string())
}
fn n(x: usize) -> J {
    J::N(x as i64)
}

// ---------------------------------------------------------------- context
struct Cx<'tcx> {
    tcx: TyCtxt<'tcx>,
    types: Vec<J>,
    type_ix: HashMap<Ty<'tcx>, usize>,
}

impl<'tcx> Cx<'tcx> {
    fn path(&self, d: DefId) -> String {
        self.tcx.def_path_str(d)
    }
    fn span(&self, sp: rustc_span::Span) -> J {
        let sm = self.tcx.sess.source_map();
        let lo = sm.lookup_char_pos(sp.lo());
        let file = match &lo.file.name {
            rustc_span::FileName::Real(r) => match r.local_path() {
                Some(p) => p.display().to_string(),
                None => format!("{:?}", lo.file.name),
            },
            other => format!("{:?}", other),
        };
        J::O(vec![
            ("file", s(file)),
            ("line", n(lo.line)),
            ("col", n(lo.col.0 + 1)),
            ("exp", J::B(sp.from_expansion())),
        ])
    }

    fn garg(&mut self, a: ty::GenericArg<'tcx>) -> J {
        match a.kind() {
            GenericArgKind::Type(t) => J::O(vec![("ty", n(self.ty(t)))]),
            GenericArgKind::Const(c) => J::O(vec![("const", s(c))]),
            GenericArgKind::Lifetime(_) => J::O(vec![("lt", J::B(true))]),
        }
    }

    fn ty(&mut self, t: Ty<'tcx>) -> usize {
        if let Some(&i) = self.type_ix.get(&t) {
            return i;
        }
        // reserve slot first (recursive types cannot occur structurally, but be safe)
        let ix = self.types.len();
        self.types.push(J::Null);
        self.type_ix.insert(t, ix);
        let mut o: Vec<(&'static str, J)> = vec![("s", s(t))];
        match t.kind() {
            ty::Bool => o.push(("k", s("bool"))),
            ty::Char => o.push(("k", s("char"))),
            ty::Int(i) => {
                o.push(("k", s("int")));
                o.push(("name", s(i.name_str())));
            }
            ty::Uint(u) => {
                o.push(("k", s("uint")));
                o.push(("name", s(u.name_str())));
            }
            ty::Float(_) => o.push(("k", s("float"))),
            ty::Str => o.push(("k", s("str"))),
            ty::Never => o.push(("k", s("never"))),
            ty::Adt(def, args) => {
                o.push(("k", s("adt")));
                o.push(("adt", s(self.path(def.did()))));
                o.push(("local", J::B(def.did().is_local())));
                o.push((
                    "adt_kind",
                    s(if def.is_struct() {
                        "struct"
                    } else if def.is_enum() {
                        "enum"
                    } else {
                        "union"
                    }),
                ));
                let a: Vec<J> = args.iter().map(|a| self.garg(a)).collect();
                o.push(("args", J::A(a)));
            }
            ty::Ref(_, inner, m) => {
                o.push(("k", s("ref")));
                o.push(("mut", J::B(m.is_mut())));
                let i = self.ty(*inner);
                o.push(("inner", n(i)));
            }
            ty::RawPtr(inner, m) => {
                o.push(("k", s("rawptr")));
                o.push(("mut", J::B(m.is_mut())));
                let i = self.ty(*inner);
                o.push(("inner", n(i)));
            }
            ty::Array(inner, len) => {
                o.push(("k", s("array")));
                let i = self.ty(*inner);
                o.push(("inner", n(i)));
                o.push(("len", s(len)));
            }
            ty::Slice(inner) => {
                o.push(("k", s("slice")));
                let i = self.ty(*inner);
                o.push(("inner", n(i)));
            }
            ty::Tuple(ts) => {
                o.push(("k", s("tuple")));
                let a: Vec<J> = ts.iter().map(|t| n(self.ty(t))).collect();
                o.push(("elems", J::A(a)));
            }
            ty::Param(p) => {
                o.push(("k", s("param")));
                o.push(("name", s(p.name)));
            }
            ty::Alias(al) => {
                o.push(("k", s("alias")));
                o.push(("alias_def", s(self.path(al.kind.def_id()))));
                let a: Vec<J> = al.args.iter().map(|a| self.garg(a)).collect();
                o.push(("args", J::A(a)));
            }
            ty::FnDef(d, args) => {
                o.push(("k", s("fndef")));
                o.push(("fn", s(self.path(*d))));
                let a: Vec<J> = args.iter().map(|a| self.garg(a)).collect();
                o.push(("args", J::A(a)));
            }
            ty::Closure(d, _) => {
                o.push(("k", s("closure")));
                o.push(("fn", s(self.path(*d))));
            }
            ty::FnPtr(..) => o.push(("k", s("fnptr"))),
            ty::Dynamic(..) => o.push(("k", s("dyn"))),
            _ => o.push(("k", s("other"))),
        }
        self.types[ix] = J::O(o);
        ix
    }

    // ------------------------------------------------------------ MIR
    fn place(&mut self, body: &Body<'tcx>, p: &Place<'tcx>) -> J {
        let tcx = self.tcx;
        let mut proj = Vec::new();
        let mut pty = rustc_middle::mir::PlaceTy::from_ty(body.local_decls[p.local].ty);
        for elem in p.projection.iter() {
            let mut o: Vec<(&'static str, J)> = Vec::new();
            match elem {
                PlaceElem::Deref => o.push(("k", s("deref"))),
                PlaceElem::Field(f, _) => {
                    o.push(("k", s("field")));
                    o.push(("i", n(f.as_usize())));
                    if let ty::Adt(def, _) = pty.ty.kind() {
                        let v = match pty.variant_index {
                            Some(v) => v,
                            None => rustc_abi::FIRST_VARIANT,
                        };
                        if v.as_usize() < def.variants().len() {
                            let var = def.variant(v);
                            if f.as_usize() < var.fields.len() {
                                o.push(("name", s(var.fields[f].name)));
                            }
                        }
                    }
                }
                PlaceElem::Index(l) => {
                    o.push(("k", s("index")));
                    o.push(("local", n(l.as_usize())));
                }
                PlaceElem::ConstantIndex { offset, min_length, from_end } => {
                    o.push(("k", s("constindex")));
                    o.push(("offset", n(offset as usize)));
                    o.push(("min_length", n(min_length as usize)));
                    o.push(("from_end", J::B(from_end)));
                }
                PlaceElem::Subslice { from, to, from_end } => {
                    o.push(("k", s("subslice")));
                    o.push(("from", n(from as usize)));
                    o.push(("to", n(to as usize)));
                    o.push(("from_end", J::B(from_end)));
                }
                PlaceElem::Downcast(name, v) => {
                    o.push(("k", s("downcast")));
                    o.push(("variant", n(v.as_usize())));
                    if let Some(nm) = name {
                        o.push(("name", s(nm)));
                    }
                }
                PlaceElem::OpaqueCast(_) => o.push(("k", s("opaquecast"))),
                PlaceElem::UnwrapUnsafeBinder(_) => o.push(("k", s("unwrapbinder"))),
            }
            pty = pty.projection_ty(tcx, elem);
            let t = self.ty(pty.ty);
            o.push(("ty", n(t)));
            proj.push(J::O(o));
        }
        J::O(vec![("local", n(p.local.as_usize())), ("proj", J::A(proj))])
    }

    /// name of the item, or of the nearest named ancestor for closures (which have no name)
    fn safe_name(&self, d: DefId) -> String {
        let tcx = self.tcx;
        let mut cur = d;
        loop {
            if let Some(nm) = tcx.opt_item_name(cur) {
                return nm.to_string();
            }
            match tcx.opt_parent(cur) {
                Some(p) => cur = p,
                None => return String::from("?"),
            }
        }
    }

    fn fn_ref(&mut self, owner: DefId, d: DefId, args: ty::GenericArgsRef<'tcx>) -> J {
        let tcx = self.tcx;
        let mut o: Vec<(&'static str, J)> = vec![("path", s(self.path(d)))];
        o.push(("name", s(self.safe_name(d))));
        o.push(("local", J::B(d.is_local())));
        o.push(("krate", s(tcx.crate_name(d.krate))));
        let a: Vec<J> = args.iter().map(|a| self.garg(a)).collect();
        o.push(("args", J::A(a)));
        if let Some(assoc) = tcx.opt_associated_item(d) {
            match assoc.container {
                ty::AssocContainer::Trait => {
                    let tr = tcx.parent(d);
                    o.push(("trait", s(self.path(tr))));
                }
                ty::AssocContainer::InherentImpl => {
                    let im = tcx.parent(d);
                    let st = tcx.type_of(im).instantiate_identity().skip_norm_wip();
                    o.push(("impl_self", s(st)));
                }
                ty::AssocContainer::TraitImpl(_) => {
                    let im = tcx.parent(d);
                    let tr = tcx.impl_trait_ref(im).instantiate_identity().skip_norm_wip();
                    o.push(("impl_of_trait", s(self.path(tr.def_id))));
                    o.push(("impl_self", s(tr.self_ty())));
                }
            }
        }
        // resolution
        let env = TypingEnv::post_analysis(tcx, owner);
        if let Ok(Some(inst)) = Instance::try_resolve(tcx, env, d, args) {
            let rd = inst.def_id();
            if rd != d {
                let mut r: Vec<(&'static str, J)> = vec![("path", s(self.path(rd)))];
                r.push(("local", J::B(rd.is_local())));
                r.push(("krate", s(tcx.crate_name(rd.krate))));
                r.push(("kind", s(format!("{:?}", inst.def).split('(').next().unwrap_or(""))));
                let a: Vec<J> = inst.args.iter().map(|a| self.garg(a)).collect();
                r.push(("args", J::A(a)));
                if let Some(assoc) = tcx.opt_associated_item(rd) {
                    if let ty::AssocContainer::TraitImpl(_) = assoc.container {
                        let im = tcx.parent(rd);
                        let tr = tcx.impl_trait_ref(im).instantiate_identity().skip_norm_wip();
                        r.push(("impl_of_trait", s(self.path(tr.def_id))));
                        r.push(("impl_self", s(tr.self_ty())));
                    }
                }
                o.push(("resolved", J::O(r)));
            } else {
                o.push(("resolved_same", J::B(true)));
            }
        }
        J::O(o)
    }

    fn operand(&mut self, owner: DefId, body: &Body<'tcx>, op: &Operand<'tcx>) -> J {
        match op {
            Operand::Copy(p) => J::O(vec![("k", s("copy")), ("place", self.place(body, p))]),
            Operand::Move(p) => J::O(vec![("k", s("move")), ("place", self.place(body, p))]),
            Operand::Constant(c) => {
                let tcx = self.tcx;
                let cty = c.const_.ty();
                let mut o: Vec<(&'static str, J)> = vec![("k", s("const"))];
                o.push(("ty", n(self.ty(cty))));
                match cty.kind() {
                    ty::FnDef(d, args) => {
                        o.push(("fn", self.fn_ref(owner, *d, args)));
                    }
                    _ => {
                        let env = TypingEnv::post_analysis(tcx, owner);
                        let mut done = false;
                        if cty.is_integral() || cty.is_bool() || cty.is_char() {
                            if let Some(si) = c.const_.try_eval_scalar_int(tcx, env) {
                                let sz = si.size();
                                let v = si.to_bits(sz);
                                o.push(("int", s(v)));
                                o.push(("bits", n(sz.bits() as usize)));
                                done = true;
                            }
                        }
                        if !done {
                            o.push(("text", s(&c.const_)));
                            match c.const_ {
                                MirConst::Unevaluated(uv, _) => {
                                    o.push(("uneval", s(self.path(uv.def))));
                                    let a: Vec<J> = uv.args.iter().map(|a| self.garg(a)).collect();
                                    o.push(("uneval_args", J::A(a)));
                                    if let Some(p) = uv.promoted {
                                        o.push(("promoted", n(p.as_usize())));
                                    }
                                }
                                _ => {}
                            }
                        }
                    }
                }
                J::O(o)
            }
            #[allow(unreachable_patterns)]
            _ => J::O(vec![("k", s("other")), ("text", s(format!("{:?}", op)))]),
        }
    }

    fn rvalue(&mut self, owner: DefId, body: &Body<'tcx>, rv: &Rvalue<'tcx>) -> J {
        let tcx = self.tcx;
        match rv {
            Rvalue::Use(op, ..) => J::O(vec![("k", s("use")), ("op", self.operand(owner, body, op))]),
            Rvalue::Repeat(op, c) => J::O(vec![
                ("k", s("repeat")),
                ("op", self.operand(owner, body, op)),
                ("count", s(c)),
            ]),
            Rvalue::Ref(_, bk, p) => J::O(vec![
                ("k", s("ref")),
                (
                    "mut",
                    J::B(match bk {
                        BorrowKind::Mut { .. } => true,
                        _ => false,
                    }),
                ),
                ("place", self.place(body, p)),
            ]),
            Rvalue::RawPtr(_, p) => J::O(vec![("k", s("rawptr")), ("place", self.place(body, p))]),
            Rvalue::Cast(kind, op, t) => {
                let kn = match kind {
                    CastKind::IntToInt => "IntToInt".to_string(),
                    CastKind::Transmute => "Transmute".to_string(),
                    CastKind::PtrToPtr => "PtrToPtr".to_string(),
                    CastKind::PointerCoercion(pc, _) => format!("PointerCoercion::{:?}", pc),
                    other => format!("{:?}", other),
                };
                J::O(vec![
                    ("k", s("cast")),
                    ("cast", s(kn)),
                    ("op", self.operand(owner, body, op)),
                    ("ty", n(self.ty(*t))),
                ])
            }
            Rvalue::BinaryOp(op, ab) => J::O(vec![
                ("k", s("binop")),
                ("op", s(format!("{:?}", op))),
                ("a", self.operand(owner, body, &ab.0)),
                ("b", self.operand(owner, body, &ab.1)),
            ]),
            Rvalue::UnaryOp(op, a) => J::O(vec![
                ("k", s("unop")),
                ("op", s(format!("{:?}", op))),
                ("a", self.operand(owner, body, a)),
            ]),
            Rvalue::Discriminant(p) => J::O(vec![("k", s("discriminant")), ("place", self.place(body, p))]),
            Rvalue::Aggregate(kind, ops) => {
                let mut o: Vec<(&'static str, J)> = vec![("k", s("aggregate"))];
                match &**kind {
                    AggregateKind::Array(_) => o.push(("agg", s("array"))),
                    AggregateKind::Tuple => o.push(("agg", s("tuple"))),
                    AggregateKind::Adt(d, v, _, _, _) => {
                        o.push(("agg", s("adt")));
                        o.push(("adt", s(self.path(*d))));
                        o.push(("variant", n(v.as_usize())));
                        let def = tcx.adt_def(*d);
                        let var = def.variant(*v);
                        o.push(("variant_name", s(var.name)));
                        let names: Vec<J> = var.fields.iter().map(|f| s(f.name)).collect();
                        o.push(("fields", J::A(names)));
                    }
                    AggregateKind::Closure(d, _) => {
                        o.push(("agg", s("closure")));
                        o.push(("fn", s(self.path(*d))));
                    }
                    other => o.push(("agg", s(format!("{:?}", other)))),
                }
                let v: Vec<J> = ops.iter().map(|op| self.operand(owner, body, op)).collect();
                o.push(("ops", J::A(v)));
                J::O(o)
            }
            Rvalue::CopyForDeref(p) => J::O(vec![("k", s("copyforderef")), ("place", self.place(body, p))]),
            other => J::O(vec![("k", s("other")), ("text", s(format!("{:?}", other)))]),
        }
    }

    fn block(&mut self, owner: DefId, body: &Body<'tcx>, data: &BasicBlockData<'tcx>) -> J {
        let mut stmts = Vec::new();
        for st in &data.statements {
            match &st.kind {
                StatementKind::Assign(b) => {
                    let (p, rv) = &**b;
                    stmts.push(J::O(vec![
                        ("k", s("assign")),
                        ("place", self.place(body, p)),
                        ("rv", self.rvalue(owner, body, rv)),
                        ("span", self.span(st.source_info.span)),
                    ]));
                }
                StatementKind::SetDiscriminant { place, variant_index } => {
                    stmts.push(J::O(vec![
                        ("k", s("setdiscr")),
                        ("place", self.place(body, place)),
                        ("variant", n(variant_index.as_usize())),
                    ]));
                }
                StatementKind::Intrinsic(i) => {
                    stmts.push(J::O(vec![("k", s("intrinsic")), ("text", s(format!("{:?}", i)))]));
                }
                _ => {}
            }
        }
        let term = data.terminator();
        let mut t: Vec<(&'static str, J)> = Vec::new();
        t.push(("span", self.span(term.source_info.span)));
        let unwind = |u: &UnwindAction| -> J {
            match u {
                UnwindAction::Cleanup(b) => n(b.as_usize()),
                _ => J::Null,
            }
        };
        match &term.kind {
            TerminatorKind::Goto { target } => {
                t.push(("k", s("goto")));
                t.push(("target", n(target.as_usize())));
            }
            TerminatorKind::SwitchInt { discr, targets } => {
                t.push(("k", s("switch")));
                t.push(("discr", self.operand(owner, body, discr)));
                let mut arms = Vec::new();
                for (v, b) in targets.iter() {
                    arms.push(J::A(vec![s(v), n(b.as_usize())]));
                }
                t.push(("arms", J::A(arms)));
                t.push(("otherwise", n(targets.otherwise().as_usize())));
            }
            TerminatorKind::Return => t.push(("k", s("return"))),
            TerminatorKind::Unreachable => t.push(("k", s("unreachable"))),
            TerminatorKind::UnwindResume => t.push(("k", s("resume"))),
            TerminatorKind::UnwindTerminate(_) => t.push(("k", s("terminate"))),
            TerminatorKind::Drop { place, target, unwind: u, .. } => {
                t.push(("k", s("drop")));
                t.push(("place", self.place(body, place)));
                t.push(("target", n(target.as_usize())));
                t.push(("unwind", unwind(u)));
            }
            TerminatorKind::Call { func, args, destination, target, unwind: u, .. } => {
                t.push(("k", s("call")));
                t.push(("func", self.operand(owner, body, func)));
                let a: Vec<J> = args.iter().map(|a| self.operand(owner, body, &a.node)).collect();
                t.push(("args", J::A(a)));
                t.push(("dest", self.place(body, destination)));
                t.push((
                    "target",
                    match target {
                        Some(b) => n(b.as_usize()),
                        None => J::Null,
                    },
                ));
                t.push(("unwind", unwind(u)));
            }
            TerminatorKind::Assert { cond, expected, msg, target, unwind: u } => {
                t.push(("k", s("assert")));
                t.push(("cond", self.operand(owner, body, cond)));
                t.push(("expected", J::B(*expected)));
                let kind = format!("{:?}", msg);
                let kn = kind.split(|c| c == '(' || c == ' ' || c == '{').next().unwrap_or("").to_string();
                t.push(("msg_kind", s(kn)));
                t.push(("msg", s(kind)));
                t.push(("target", n(target.as_usize())));
                t.push(("unwind", unwind(u)));
            }
            TerminatorKind::FalseEdge { real_target, .. } => {
                t.push(("k", s("goto")));
                t.push(("target", n(real_target.as_usize())));
            }
            TerminatorKind::FalseUnwind { real_target, .. } => {
                t.push(("k", s("goto")));
                t.push(("target", n(real_target.as_usize())));
            }
            other => {
                t.push(("k", s("other")));
                t.push(("text", s(format!("{:?}", other))));
            }
        }
        J::O(vec![
            ("cleanup", J::B(data.is_cleanup)),
            ("stmts", J::A(stmts)),
            ("term", J::O(t)),
        ])
    }

    fn body(&mut self, ld: LocalDefId) -> Option<J> {
        let tcx = self.tcx;
        let d = ld.to_def_id();
        let kind = tcx.def_kind(d);
        let kn = match kind {
            DefKind::Fn => "fn",
            DefKind::AssocFn => "assoc_fn",
            DefKind::Closure => "closure",
            _ => return None,
        };
        if !tcx.is_mir_available(d) {
            return None;
        }
        let body: &Body<'tcx> = tcx.optimized_mir(d);
        let mut o: Vec<(&'static str, J)> = vec![("path", s(self.path(d))), ("kind", s(kn))];
        o.push(("name", s(self.safe_name(d))));
        o.push(("span", self.span(tcx.def_span(d))));
        o.push(("arg_count", n(body.arg_count)));
        if matches!(kind, DefKind::Fn | DefKind::AssocFn) {
            o.push(("vis", s(format!("{:?}", tcx.visibility(d)))));
        }
        // container
        let parent = tcx.parent(d);
        match tcx.def_kind(parent) {
            DefKind::Impl { of_trait } => {
                o.push(("impl", s(self.path(parent))));
                o.push(("impl_id", s(format!("{:?}", parent))));
                let st = tcx.type_of(parent).instantiate_identity().skip_norm_wip();
                o.push(("impl_self", s(st)));
                o.push(("impl_self_ty", n(self.ty(st))));
                if of_trait {
                    let tr = tcx.impl_trait_ref(parent).instantiate_identity().skip_norm_wip();
                    o.push(("impl_trait", s(self.path(tr.def_id))));
                }
            }
            DefKind::Trait => {
                o.push(("in_trait", s(self.path(parent))));
            }
            _ => {
                o.push(("parent", s(self.path(parent))));
            }
        }
        // generics
        let gens = tcx.generics_of(d);
        let mut gnames = Vec::new();
        let mut g = Some(gens);
        while let Some(gg) = g {
            for p in gg.own_params.iter().rev() {
                gnames.push(s(p.name));
            }
            g = gg.parent.map(|p| tcx.generics_of(p));
        }
        gnames.reverse();
        o.push(("generics", J::A(gnames)));
        let preds = tcx.predicates_of(d).instantiate_identity(tcx);
        let pv: Vec<J> = preds.predicates.iter().map(|p| s(p.skip_norm_wip())).collect();
        o.push(("predicates", J::A(pv)));

        let mut locals = Vec::new();
        for (_, decl) in body.local_decls.iter_enumerated() {
            locals.push(J::O(vec![("ty", n(self.ty(decl.ty))), ("mut", J::B(decl.mutability.is_mut()))]));
        }
        o.push(("locals", J::A(locals)));
        let mut dbg = Vec::new();
        for vdi in &body.var_debug_info {
            if let rustc_middle::mir::VarDebugInfoContents::Place(p) = &vdi.value {
                dbg.push(J::O(vec![("name", s(vdi.name)), ("place", self.place(body, p))]));
            }
        }
        o.push(("debug", J::A(dbg)));
        let mut blocks = Vec::new();
        for (_, data) in body.basic_blocks.iter_enumerated() {
            blocks.push(self.block(d, body, data));
        }
        o.push(("blocks", J::A(blocks)));
        // promoted constants (e.g. `&0` in assert macros): emitted as small bodies
        let mut proms = Vec::new();
        for (_, pb) in tcx.promoted_mir(d).iter_enumerated() {
            let mut po: Vec<(&'static str, J)> = Vec::new();
            let mut pl = Vec::new();
            for (_, decl) in pb.local_decls.iter_enumerated() {
                pl.push(J::O(vec![("ty", n(self.ty(decl.ty))), ("mut", J::B(decl.mutability.is_mut()))]));
            }
            po.push(("locals", J::A(pl)));
            let mut pbs = Vec::new();
            for (_, data) in pb.basic_blocks.iter_enumerated() {
                pbs.push(self.block(d, pb, data));
            }
            po.push(("blocks", J::A(pbs)));
            proms.push(J::O(po));
        }
        o.push(("promoted", J::A(proms)));
        Some(J::O(o))
    }

    // ------------------------------------------------------------ items
    fn adt(&mut self, ld: LocalDefId) -> J {
        let tcx = self.tcx;
        let d = ld.to_def_id();
        let def = tcx.adt_def(d);
        let mut o: Vec<(&'static str, J)> = vec![("path", s(self.path(d)))];
        o.push(("name", s(tcx.item_name(d))));
        o.push((
            "kind",
            s(if def.is_struct() {
                "struct"
            } else if def.is_enum() {
                "enum"
            } else {
                "union"
            }),
        ));
        o.push(("vis", s(format!("{:?}", tcx.visibility(d)))));
        o.push(("span", self.span(tcx.def_span(d))));
        let gens = tcx.generics_of(d);
        let gn: Vec<J> = gens.own_params.iter().map(|p| s(p.name)).collect();
        o.push(("generics", J::A(gn)));
        let mut variants = Vec::new();
        for v in def.variants().iter() {
            let mut fields = Vec::new();
            for f in v.fields.iter() {
                let fty = tcx.type_of(f.did).instantiate_identity().skip_norm_wip();
                fields.push(J::O(vec![
                    ("name", s(f.name)),
                    ("ty", n(self.ty(fty))),
                    ("ty_s", s(fty)),
                    ("vis", s(format!("{:?}", f.vis))),
                ]));
            }
            variants.push(J::O(vec![("name", s(v.name)), ("fields", J::A(fields))]));
        }
        o.push(("variants", J::A(variants)));
        J::O(o)
    }

    fn impl_(&mut self, ld: LocalDefId) -> J {
        let tcx = self.tcx;
        let d = ld.to_def_id();
        let mut o: Vec<(&'static str, J)> = vec![("id", s(format!("{:?}", d)))];
        o.push(("path", s(self.path(d))));
        let st = tcx.type_of(d).instantiate_identity().skip_norm_wip();
        o.push(("self", s(st)));
        o.push(("self_ty", n(self.ty(st))));
        if let ty::Adt(def, _) = st.kind() {
            o.push(("self_adt", s(self.path(def.did()))));
            o.push(("self_adt_local", J::B(def.did().is_local())));
        }
        o.push(("span", self.span(tcx.def_span(d))));
        o.push(("auto_derived", J::B(tcx.is_automatically_derived(d))));
        if let DefKind::Impl { of_trait: true } = tcx.def_kind(d) {
            let tr = tcx.impl_trait_ref(d).instantiate_identity().skip_norm_wip();
            o.push(("trait", s(self.path(tr.def_id))));
            o.push(("trait_krate", s(tcx.crate_name(tr.def_id.krate))));
            o.push(("trait_name", s(tcx.item_name(tr.def_id))));
            let a: Vec<J> = tr.args.iter().map(|a| self.garg(a)).collect();
            o.push(("trait_args", J::A(a)));
            o.push(("trait_ref", s(tr)));
        }
        let preds = tcx.predicates_of(d).instantiate_identity(tcx);
        let pv: Vec<J> = preds.predicates.iter().map(|p| s(p.skip_norm_wip())).collect();
        o.push(("predicates", J::A(pv)));
        let mut items = Vec::new();
        for it in tcx.associated_items(d).in_definition_order() {
            let mut io: Vec<(&'static str, J)> = vec![("name", s(it.name()))];
            io.push(("kind", s(format!("{:?}", it.as_def_kind()))));
            io.push(("path", s(self.path(it.def_id))));
            if it.is_type() {
                let t = tcx.type_of(it.def_id).instantiate_identity().skip_norm_wip();
                io.push(("ty", n(self.ty(t))));
                io.push(("ty_s", s(t)));
            }
            // value of an associated constant of integer / bool type, when the impl fixes it
            if format!("{:?}", it.as_def_kind()).starts_with("AssocConst") {
                let t = tcx.type_of(it.def_id).instantiate_identity().skip_norm_wip();
                io.push(("ty", n(self.ty(t))));
                if t.is_integral() || t.is_bool() {
                    if let Ok(v) = tcx.const_eval_poly(it.def_id) {
                        if let Some(si) = v.try_to_scalar_int() {
                            let sz = si.size();
                            io.push(("int", s(si.to_bits(sz))));
                            io.push(("bits", n(sz.bits() as usize)));
                        }
                    }
                }
            }
            items.push(J::O(io));
        }
        o.push(("items", J::A(items)));
        J::O(o)
    }

    fn trait_(&mut self, ld: LocalDefId) -> J {
        let tcx = self.tcx;
        let d = ld.to_def_id();
        let mut items = Vec::new();
        for it in tcx.associated_items(d).in_definition_order() {
            items.push(J::O(vec![
                ("name", s(it.name())),
                ("kind", s(format!("{:?}", it.as_def_kind()))),
                ("provided", J::B(it.defaultness(tcx).has_value())),
            ]));
        }
        J::O(vec![("path", s(self.path(d))), ("name", s(tcx.item_name(d))), ("items", J::A(items))])
    }
}

struct Cb;

impl rustc_driver::Callbacks for Cb {
    fn after_analysis<'tcx>(&mut self, _c: &Compiler, tcx: TyCtxt<'tcx>) -> Compilation {
        let out_dir = match std::env::var("BMSA_OUT") {
            Ok(v) => v,
            Err(_) => return Compilation::Continue,
        };
        let krate = tcx.crate_name(LOCAL_CRATE).to_string();
        let wanted = std::env::var("BMSA_CRATES").unwrap_or_default();
        if !wanted.split(',').any(|w| w == krate) {
            return Compilation::Continue;
        }
        // skip build scripts / test harnesses of the same name
        let mut cx = Cx { tcx, types: Vec::new(), type_ix: HashMap::new() };
        let mut adts = Vec::new();
        let mut impls = Vec::new();
        let mut traits = Vec::new();
        let mut statics = Vec::new();
        let mut aliases = Vec::new();
        let mut bodies = Vec::new();
        let mut fns = Vec::new();
        for ld in tcx.hir_crate_items(()).definitions() {
            let d = ld.to_def_id();
            match tcx.def_kind(d) {
                DefKind::Struct | DefKind::Enum | DefKind::Union => adts.push(cx.adt(ld)),
                DefKind::Impl { .. } => impls.push(cx.impl_(ld)),
                DefKind::Trait => traits.push(cx.trait_(ld)),
                DefKind::Static { mutability, .. } => {
                    let t = tcx.type_of(d).instantiate_identity().skip_norm_wip();
                    let env = TypingEnv::post_analysis(tcx, d);
                    statics.push(J::O(vec![
                        ("path", s(cx.path(d))),
                        ("mut", J::B(mutability.is_mut())),
                        ("ty", n(cx.ty(t))),
                        ("ty_s", s(t)),
                        ("freeze", J::B(t.is_freeze(tcx, env))),
                        ("span", cx.span(tcx.def_span(d))),
                    ]));
                }
                DefKind::TyAlias => {
                    let t = tcx.type_of(d).instantiate_identity().skip_norm_wip();
                    aliases.push(J::O(vec![
                        ("path", s(cx.path(d))),
                        ("name", s(tcx.item_name(d))),
                        ("vis", s(format!("{:?}", tcx.visibility(d)))),
                        ("ty", n(cx.ty(t))),
                        ("ty_s", s(t)),
                    ]));
                }
                DefKind::Fn | DefKind::AssocFn => {
                    fns.push(J::O(vec![
                        ("path", s(cx.path(d))),
                        ("has_body", J::B(tcx.is_mir_available(d))),
                    ]));
                }
                _ => {}
            }
        }
        // bodies: every body owner (functions, methods, closures)
        for ld in tcx.hir_body_owners() {
            if let Some(b) = cx.body(ld) {
                bodies.push(b);
            }
        }
        // public names of the crate root (items and re-exports)
        let mut exports = Vec::new();
        for ch in tcx.module_children_local(rustc_hir::def_id::CRATE_DEF_ID) {
            if let rustc_hir::def::Res::Def(kind, did) = ch.res {
                exports.push(J::O(vec![
                    ("name", s(ch.ident.name)),
                    ("target", s(cx.path(did))),
                    ("target_name", s(tcx.item_name(did))),
                    ("kind", s(format!("{:?}", kind))),
                    ("public", J::B(ch.vis.is_public())),
                    ("reexport", J::B(!ch.reexport_chain.is_empty())),
                    ("target_local", J::B(did.is_local())),
                ]));
            }
        }
        // crate attributes
        let no_std = rustc_hir::find_attr!(tcx, crate, NoStd);
        let (lvl, _) = {
            let store = rustc_lint::unerased_lint_store(tcx.sess);
            match store.get_lints().iter().find(|l| l.name_lower() == "unsafe_code") {
                Some(lint) => {
                    let l = tcx.lint_level_at_node(lint, rustc_hir::CRATE_HIR_ID);
                    (format!("{:?}", l.level), 0)
                }
                None => ("unknown".to_string(), 0),
            }
        };
        let feats: Vec<J> = tcx
            .sess
            .config
            .iter()
            .filter(|(k, _)| k.as_str() == "feature")
            .map(|(_, v)| s(v.map(|x| x.to_string()).unwrap_or_default()))
            .collect();
        let deps: Vec<J> = tcx.crates(()).iter().map(|c| s(tcx.crate_name(*c))).collect();
        let root = J::O(vec![
            ("crate", s(&krate)),
            ("no_std", J::B(no_std)),
            ("unsafe_code_level", s(lvl)),
            ("features", J::A(feats)),
            ("deps", J::A(deps)),
            ("adts", J::A(adts)),
            ("impls", J::A(impls)),
            ("traits", J::A(traits)),
            ("statics", J::A(statics)),
            ("aliases", J::A(aliases)),
            ("fns", J::A(fns)),
            ("exports", J::A(exports)),
            ("bodies", J::A(bodies)),
            ("types", J::A(cx.types.clone())),
        ]);
        let mut out = String::new();
        root.write(&mut out);
        let path = format!("{}/{}.json", out_dir, krate);
        let tmp = format!("{}.tmp{}", path, std::process::id());
        std::fs::write(&tmp, out).expect("write facts");
        std::fs::rename(&tmp, &path).expect("rename facts");
        Compilation::Continue
    }
}

fn main() {
    let mut args: Vec<String> = std::env::args().collect();
    // used as RUSTC_WRAPPER: argv[1] is the path of the real rustc
    if args.len() > 1 && (args[1].ends_with("rustc") || args[1].contains("/rustc")) && !args[1].starts_with('-') {
        args.remove(1);
    }
    let mut cb = Cb;
    rustc_driver::run_compiler(&args, &mut cb);
}
