"""Smaller rules: plumbing, encryption-direction-only, IV sizes, panic-site coverage,
front-end identities."""
from .lin import Lin, lin, ZERO, ONE
from . import terms as T
from .terms import Undecided
from . import specs as S
from . import cfg as G
from . import interp as IP
from .modes import (discover_backends, owner_of, kernel_summary, method_body, impl_for, run_plain, values_equal, show_value)
from .kernels import BS, NPAR, base_ctx, base_facts, ctr_flavors, ctr_ctx
from .report import loc_of, Report
from . import blockmode as BM
from . import streammode as SM


def _ctx_for(fb, be):
    if be.cr.name == "ctr":
        cr, fls = ctr_flavors(fb)
        return ctr_ctx(cr, fls[0])
    if be.cr.name == "belt_ctr":
        return SM.belt_ctx(), base_facts()
    return base_ctx(), base_facts()


def check_plumbing(rep, fb, crates=None):
    """the backend handed to the driver borrows the owner's own state fields (updates persist),
    the cipher's *_with_backend is entered once and the driver closure is called exactly once."""
    for be in discover_backends(fb):
        if crates is not None and be.cr.name not in crates:
            continue
        inst = be.name()
        ctx, F = _ctx_for(fb, be)
        try:
            ow, fmap = owner_of(fb, be, ctx, F)
            if ow is None:
                rep.ob("plumb.owner", inst, False, "no public type hands this backend to the driver", loc_of(be.one))
                continue
            st = [f for f, o in fmap.items() if not o.startswith("<")]
            bad = [f for f, o in fmap.items() if o.startswith("<other") or o == "<value>"]
            distinct = len(set(fmap[f] for f in st)) == len(st)
            rep.ob("plumb.state-borrowed", inst, bool(st) and not bad and distinct, "backend fields %s borrow owner fields %s of %s" % (st, [fmap[f] for f in st], ow.adt), loc_of(ow.with_backend))
            after = getattr(ow, "state_after", None)
            untouched = after is not None and after[0] == "struct"
            changed = []
            if untouched:
                from .loops import value_names
                for fname, v in after[2].items():
                    want = "self." + fname
                    if v[0] == "bytes":
                        if not (len(v[1]) == 1 and v[1][0][0] == "x" and len(v[1][0][2]) == 1 and v[1][0][2][0][0] == ("var", want)):
                            changed.append(fname)
                    elif v[0] == "int":
                        if v[1] != T.ivar(v[1][1], want):
                            changed.append(fname)
                    elif v[0] == "struct":
                        for n2, v2 in v[2].items():
                            w2 = want + "." + n2
                            if v2[0] == "bytes" and not (len(v2[1]) == 1 and v2[1][0][0] == "x" and len(v2[1][0][2]) == 1 and v2[1][0][2][0][0] == ("var", w2)):
                                changed.append(fname + "." + n2)
                            if v2[0] == "int" and v2[1] != T.ivar(v2[1][1], w2):
                                changed.append(fname + "." + n2)
            rep.ob("plumb.state-untouched", inst, untouched and not changed, "owner state is modified only by the driver's calls into the backend (nothing else in *_with_backend, incl. Drop of the transient backend, writes it)" if not changed else "owner fields %s are overwritten around the driver call" % changed, loc_of(ow.with_backend))
        except Undecided as e:
            rep.undecided("plumb.owner", inst, str(e), loc_of(be.one))


def _cipher_events(evs, out):
    for e in evs:
        if e[0] == "cipher":
            out.append(e[1])
        elif e[0] == "loop":
            _cipher_events(e[3], out)


def check_enc_only(rep, fb, crates):
    """feedback / counter modes use only the encryption direction of the cipher in their kernels and constructors."""
    for be in discover_backends(fb):
        if be.cr.name not in crates:
            continue
        inst = be.name()
        ctx, F = _ctx_for(fb, be)
        for which, body in (("one", be.one), ("par", be.par)):
            if body is None:
                continue
            try:
                out, st, p = kernel_summary(fb, be, body, alias=False, ctx=ctx, F=F.copy(), in_name="in" if which == "one" else "pin")
                kinds = []
                _cipher_events(p["events"], kinds)
                rep.ob("enc-only.kernel", "%s.%s" % (inst, which), "D" not in kinds and len(kinds) >= 1, "cipher calls in kernel: %s" % kinds, loc_of(body))
            except Undecided as e:
                rep.undecided("enc-only.kernel", "%s.%s" % (inst, which), str(e), loc_of(body))
    # trait bounds: the decryptor of an encryption-only mode must not require BlockCipherDecrypt to run
    for crn in sorted(crates):
        cr = fb.crate(crn)
        for b in cr.bodies:
            if b["name"] in ("inner_iv_init", "encrypt", "decrypt") and "impl" in b:
                dec_calls = [fn["path"] for i, t, fn in G.calls(b) if "BlockCipherDec" in fn["path"]]
                if b["name"] == "inner_iv_init" or b.get("impl_trait") is None:
                    rep.ob("enc-only.fn", "%s::%s" % (crn, b["path"]), not dec_calls, "no call into the decryption direction" if not dec_calls else "calls %s" % dec_calls, loc_of(b))


def check_stream_involution(rep, fb):
    """keystream kernels: block and next state independent of the data buffer, so applying the
    keystream twice restores the data (x ^ ks ^ ks)."""
    for be in discover_backends(fb):
        if be.dir != "ks":
            continue
        ctx, F = _ctx_for(fb, be)
        inst = be.name()
        for which, body in (("one", be.one), ("par", be.par)):
            if body is None:
                continue
            try:
                out, st, p = kernel_summary(fb, be, body, alias=False, ctx=ctx, F=F.copy())
                from .loops import value_names
                ok = "out_old" not in T.bvars(out[1]) and all("out_old" not in value_names(v) for v in st.values())
                rep.ob("inv.stream", "%s.%s" % (inst, which), ok, "keystream and next state do not mention the buffer contents", loc_of(body))
            except Undecided as e:
                rep.undecided("inv.stream", "%s.%s" % (inst, which), str(e), loc_of(body))


def check_length_preserving(rep, fb):
    """one-block kernels write exactly the block they were given (output length == input length)."""
    for be in BM.block_backends(fb):
        bm = BM.analyse(fb, be)
        if "one" in bm.err or be.dir == "ks":
            continue
        o = bm.one[0]
        i = bm.one[2]["cells"].get("in")
        rep.ob("inv.length", be.name(), i is not None and bm.F.prove_eq(T.blen(o[1]) - T.blen(i[1])), "bytes written == bytes read", loc_of(be.one))


def check_ofb_unbounded(rep, fb):
    cr = fb.crate("ofb")
    for im in cr.impls:
        if im.get("trait_name") == "StreamCipherCore":
            b = method_body(cr, im, "remaining_blocks")
            try:
                ip, ps = run_plain(fb, cr, b, ["self"])
                ok = len(ps) == 1 and ps[0]["ret"][0] == "enum" and ps[0]["ret"][3] == "None"
                rep.ob("rem.ofb-unbounded", "ofb::" + im["self"], ok, "OFB has no counter: remaining_blocks reports None (unbounded)", loc_of(b))
            except Undecided as e:
                rep.undecided("rem.ofb-unbounded", "ofb::" + im["self"], str(e), loc_of(b))


def check_iv_sizes(rep, fb):
    """IvSize == BlockSize for every mode, two blocks for IGE (the sizes the slice constructors compare against)."""
    from .interp import Interp
    for cr in fb.workspace():
        ctx = base_ctx()
        ip = Interp(fb, ctx)
        for im in cr.impls:
            if im.get("trait_name") != "IvSizeUser":
                continue
            for it in im["items"]:
                if it["name"] != "IvSize":
                    continue
                inst = "%s::%s" % (cr.name, im["self"])
                try:
                    got = ip.tn_lin(cr, it["ty"])
                    want = BS * 2 if cr.name == "ige" else BS
                    rep.ob("ivsize", inst, got == want, "IvSize = %r, expected %r" % (got, want), None, computed=repr(got), expected=repr(want))
                except Undecided as e:
                    rep.undecided("ivsize", inst, str(e))


PANICKY = ("unwrap", "expect", "index", "index_mut", "copy_from_slice", "split_at", "split_at_mut", "get", "clone_from_slice", "assert_failed", "panic", "panic_fmt")


def panic_sites(body):
    n = 0
    reach = G.reachable(body)
    for i, bb in enumerate(body["blocks"]):
        if bb["cleanup"] or i not in reach:
            continue
        t = bb["term"]
        if t["k"] == "assert":
            n += 1
        elif t["k"] == "call" and t["func"]["k"] == "const" and "fn" in t["func"]:
            if t["func"]["fn"]["name"] in PANICKY:
                n += 1
    return n


def check_panic_sites(rep, fb):
    """every function of the workspace that contains a potential panic site (MIR assert, unwrap,
    indexing, copy_from_slice, split_at, explicit panic) was executed by the abstract interpreter,
    whose per-site obligations are reported by the *.no-panic rules."""
    from . import ctsmode as CM
    from . import bufcfb as BC
    scratch = Report("scratch")
    BM.check_definition(scratch, fb)
    BM.check_export(scratch, fb)
    SM.check_ctr_layout(scratch, fb)
    SM.check_ctr_remaining(scratch, fb)
    SM.check_ctr_backend(scratch, fb)
    SM.check_ctr_core(scratch, fb)
    SM.check_belt(scratch, fb)
    BC.check_definition(scratch, fb)
    BC.check_state(scratch, fb)
    BC.check_init(scratch, fb)
    CM.check_b2b(scratch, fb)
    CM.check_helpers(scratch, fb)
    CM.check_constructors(scratch, fb)
    cr_cts, types = CM.cts_types(fb)
    for ty in types:
        for d in ("enc", "dec"):
            if ty.get(d):
                CM.run_entry(fb, cr_cts, ty[d], False)
    for o in scratch.obls:
        if o["rule"].endswith("no-panic") or o["undecided"]:
            rep.obls.append(o)
    for cr in fb.workspace():
        for b in cr.bodies:
            n = panic_sites(b)
            if n == 0:
                continue
            inst = "%s::%s" % (cr.name, b["path"])
            rep.ob("panic.site-covered", inst, (cr.name, b["path"]) in IP.VISITED, "%d potential panic sites; body %s by the interpreter" % (n, "analysed" if (cr.name, b["path"]) in IP.VISITED else "NOT analysed"), loc_of(b))
    # whatever harness executed a body: no completed path may leave a panic obligation unproved
    byfn = {}
    for (cn, fn), what in IP.UNPROVED.items():
        byfn[(cn, fn)] = what
    for cr in fb.workspace():
        for b in cr.bodies:
            if (cr.name, b["path"]) not in IP.VISITED:
                continue
            bad = sorted(byfn.get((cr.name, b["path"]), ()))
            rep.ob("panic.interpreted", "%s::%s" % (cr.name, b["path"]), not bad,
                   ("unproved panic obligations on an interpreted path: " + "; ".join(bad[:4])) if bad else "every assert / bounds / unwrap obligation met on the interpreted paths is proved from the path facts", loc_of(b))


def check_ofb_one_backend(rep, fb):
    """OFB: block encryptor, block decryptor and keystream core are one backend over one state cell."""
    cr = fb.crate("ofb")
    bes = discover_backends(fb, [cr])
    adts = set()
    owners = set()
    for be in bes:
        try:
            ow, fmap = owner_of(fb, be)
            adts.add(be.adt)
            owners.add((ow.adt, tuple(sorted(fmap.items()))) if ow else None)
        except Undecided as e:
            rep.undecided("ofb.one-backend", be.name(), str(e))
    rep.ob("ofb.one-backend", "ofb", len(bes) == 3 and len(adts) == 1 and len(owners) == 1 and None not in owners, "three trait impls (%s) share backend type %s and owner plumbing %s" % ([b.dir for b in bes], sorted(adts), sorted(str(o) for o in owners)))
    # the three kernels: out = in ^ ks, same next state
    try:
        ks = [b for b in bes if b.dir == "ks"][0]
        kout, kst, _ = kernel_summary(fb, ks, ks.one, alias=False)
        for be in bes:
            if be.dir == "ks":
                continue
            out, st, _ = kernel_summary(fb, be, be.one, alias=False)
            F = base_facts()
            T.declare_var("in", BS)
            want = T.bxor(T.bvar("in"), kout[1], F)
            rep.ob("ofb.same-function", be.name(), T.bequal(out[1], want, F) and all(T.bequal(st[f][1], kst[f][1], F) for f in kst if kst[f][0] == "bytes"), "block %sryption == input xor the keystream block of the core; same next state" % be.dir, loc_of(be.one), computed=T.bshow(out[1]), expected=T.bshow(want))
    except (Undecided, IndexError) as e:
        rep.undecided("ofb.same-function", "ofb", str(e))


def check_aliases(rep, fb):
    """public byte-level types are StreamCipherCoreWrapper over a core of this workspace (T2 drives it block-wise)."""
    for cr in fb.workspace():
        cores = {im.get("self_adt") for im in cr.impls if im.get("trait_name") == "StreamCipherCore"}
        for al in cr.aliases:
            t = cr.types[al["ty"]]
            if al["vis"] != "Public" or t["k"] != "adt":
                continue
            if not t["adt"].endswith("StreamCipherCoreWrapper"):
                continue
            args = [cr.types[a["ty"]] for a in t["args"] if "ty" in a]
            ok = len(args) == 1 and args[0]["k"] == "adt" and args[0]["adt"] in cores
            rep.ob("alias.wrapper", "%s::%s" % (cr.name, al["name"]), ok, "alias = StreamCipherCoreWrapper<%s>, a StreamCipherCore of this crate" % (args[0]["s"] if args else "?"))


def check_no_own_keyinit(rep, fb):
    """no workspace type implements KeyInit/KeyIvInit itself: all get the crypto-common blanket
    new(key, iv) = inner_iv_init(Inner::new(key), iv), so both constructions are the same function."""
    for cr in fb.workspace():
        own = [im for im in cr.impls if im.get("trait_name") in ("KeyInit", "KeyIvInit")]
        for im in cr.impls:
            if im.get("trait_name") in ("InnerIvInit", "InnerInit"):
                inst = "%s::%s" % (cr.name, im["self"])
                mine = [o for o in own if o.get("self_adt") == im.get("self_adt")]
                rep.ob("keyinit.blanket", inst, not mine, "constructed from key bytes through the blanket impl over %s" % im["trait_name"] if not mine else "implements %s itself" % mine[0]["trait_name"])


ANALYSED_OVERRIDES = {
    # provided methods whose overriding bodies are analysed by some rule
    "encrypt_par_blocks", "decrypt_par_blocks", "gen_par_ks_blocks",      # blockmode/streammode par closed form
    "encrypt_tail_blocks", "decrypt_tail_blocks", "gen_tail_blocks",      # reported as undecided by check_par
    "clone_from",                                                          # itemrules.check_clone_bodies
}
CORE_PROVIDED = {"core::clone::Clone": {"clone_from"}, "core::cmp::PartialEq": {"ne"}, "core::default::Default": set(), "core::fmt::Debug": set(), "core::ops::Drop": set()}


def check_overrides(rep, fb):
    """the analyses rely on the provided methods of the `cipher` traits (T2) and of the crate's own
    traits: a workspace impl that overrides a provided method none of the rules analyses would
    change behaviour behind their back, so it is reported (fail closed)."""
    provided = {}
    for src in ("cipher",) + tuple(c.name for c in fb.workspace()):
        c = fb.crates.get(src)
        if c is None:
            continue
        for t in c.traits:
            provided[(src, t["name"])] = {i["name"] for i in t["items"] if i["provided"] and i["kind"] == "AssocFn"}
    n = 0
    for cr in fb.workspace():
        for im in cr.impls:
            tn, tk = im.get("trait_name"), im.get("trait_krate")
            if tn is None:
                continue
            prov = provided.get((tk, tn))
            if prov is None:
                prov = CORE_PROVIDED.get(im.get("trait"))
            if prov is None:
                continue
            fns = {i["name"] for i in im["items"] if i["kind"] == "AssocFn"}
            over = (fns & prov)
            n += 1
            bad = over - ANALYSED_OVERRIDES
            if tk == cr.name and tn in ("Encrypt", "Decrypt"):
                # the cts entry traits: overriding the provided wrappers would bypass check_wrappers
                bad = over
            rep.ob("override.analysed", "%s::<%s as %s>" % (cr.name, im["self"], tn), not bad,
                   ("overrides provided method(s) %s that no rule analyses" % sorted(bad)) if bad else ("overrides %s" % (sorted(over) or "nothing")), None)
    if n == 0:
        rep.ob("override.analysed", "workspace", False, "no trait impl with provided methods found")
    check_cfg_coverage(rep, fb)


def check_exports(rep, fb):
    """every public type name at a crate root denotes the type of that name (a re-export that
    renames or crosses two types would silently bind a public name to another mode/variant)."""
    n = 0
    for cr in fb.workspace():
        for e in cr.j.get("exports", []):
            if not e["public"] or e["kind"] not in ("Struct", "Enum", "TyAlias", "Trait"):
                continue
            if not e["target_local"]:
                continue
            n += 1
            rep.ob("export.name", "%s::%s" % (cr.name, e["name"]), e["name"] == e["target_name"], "public name %s -> %s" % (e["name"], e["target"]))
    if n == 0:
        rep.ob("export.name", "workspace", False, "no public type found at any crate root")


# ---------------------------------------------------------------- configuration coverage
_CFG_RE = None


def _cfg_predicates(text):
    """[(line, predicate string)] of every #[cfg(..)], #[cfg_attr(.., ..)] and cfg!(..) in Rust
    source text (comments skipped; parentheses balanced by counting)."""
    import re
    out = []
    # drop line comments (incl. doc comments) and block comments, keep line numbers
    text = re.sub(r"/\*.*?\*/", lambda m: "\n" * m.group(0).count("\n"), text, flags=re.S)
    lines = [re.sub(r"//.*", "", ln) for ln in text.split("\n")]
    src = "\n".join(lines)
    for m in re.finditer(r"\bcfg(_attr)?\s*!?\s*\(", src):
        i = m.end()
        depth = 1
        j = i
        while j < len(src) and depth:
            if src[j] == "(":
                depth += 1
            elif src[j] == ")":
                depth -= 1
            j += 1
        body = src[i:j - 1]
        if m.group(1):
            # cfg_attr(predicate, attrs...): the predicate is the first top-level argument
            d = 0
            for k, ch in enumerate(body):
                if ch == "(":
                    d += 1
                elif ch == ")":
                    d -= 1
                elif ch == "," and d == 0:
                    body = body[:k]
                    break
        out.append((src.count("\n", 0, m.start()) + 1, " ".join(body.split())))
    return out


def _cfg_ok(pred, features):
    """is the predicate decided by the three analysed feature configurations?  Accepted: a declared
    feature, `not(feature)`, all/any over positive features, test/doc/docsrs.  Anything else
    (target_*, debug_assertions, mixed positive/negative combinations, undeclared features)
    selects code that no analysed configuration compiles."""
    import re
    p = pred.strip()
    if p in ("test", "doc", "docsrs", "doctest"):
        return True
    m = re.fullmatch(r'feature\s*=\s*"([^"]+)"', p)
    if m:
        return m.group(1) in features
    m = re.fullmatch(r"not\s*\((.*)\)", p)
    if m:
        inner = m.group(1).strip()
        return bool(re.fullmatch(r'feature\s*=\s*"([^"]+)"', inner)) and _cfg_ok(inner, features) or inner in ("test", "doc", "docsrs", "doctest")
    m = re.fullmatch(r"(all|any)\s*\((.*)\)", p)
    if m:
        parts, d, cur = [], 0, ""
        for ch in m.group(2):
            if ch == "(":
                d += 1
            elif ch == ")":
                d -= 1
            if ch == "," and d == 0:
                parts.append(cur)
                cur = ""
            else:
                cur += ch
        if cur.strip():
            parts.append(cur)
        return all((not q.strip().startswith("not")) and _cfg_ok(q, features) for q in parts)
    return False


def check_cfg_coverage(rep, fb):
    """every conditional-compilation predicate in the workspace sources is one that the analysed
    feature configurations decide: code under any other predicate (target_endian, pointer width,
    debug_assertions, ..) is never seen by the compiler-based analysis, so it is reported."""
    import glob
    import os
    import re
    from . import facts as FX
    n = 0
    for cr in fb.workspace():
        d = os.path.join(FX.REPO, cr.name.replace("_", "-"))
        if not os.path.isdir(d):
            d = os.path.join(FX.REPO, cr.name)
        feats = set()
        try:
            toml = open(os.path.join(d, "Cargo.toml")).read()
            sec = re.search(r"^\[features\](.*?)(^\[|\Z)", toml, flags=re.S | re.M)
            if sec:
                feats = set(re.findall(r"^([A-Za-z0-9_\-]+)\s*=", sec.group(1), flags=re.M))
        except OSError:
            rep.ob("cfg.analysed", cr.name, False, "Cargo.toml of %s not found under %s" % (cr.name, FX.REPO))
            continue
        files = sorted(glob.glob(os.path.join(d, "src", "**", "*.rs"), recursive=True))
        if os.path.exists(os.path.join(d, "build.rs")):
            rep.ob("cfg.analysed", "%s/build.rs" % cr.name, False, "a build script can select code no analysed configuration compiles")
        for f in files:
            preds = _cfg_predicates(open(f).read())
            bad = [(ln, p) for ln, p in preds if not _cfg_ok(p, feats)]
            n += 1
            rel = os.path.relpath(f, FX.REPO)
            rep.ob("cfg.analysed", rel, not bad,
                   ("conditional code outside the analysed configurations: %s" % "; ".join("line %d: cfg(%s)" % b for b in bad[:4])) if bad
                   else "%d cfg predicate(s), all decided by the feature configurations analysed" % len(preds), "%s:%d" % (rel, bad[0][0] if bad else 1))
    if n == 0:
        rep.ob("cfg.analysed", "workspace", False, "no source file found")
