"""MIR abstract interpreter over the term domain of terms.py.

Path-partitioned (a path forks only where a branch condition is not decided by
the facts of the path); loops are never unrolled: each loop is summarised from
one symbolic iteration (classes: element map, counter, last-value, recurrence)
or the analysis stops with Undecided.
"""
import re
import itertools

from .lin import Lin, Facts, lin, ZERO, ONE, neg_cond
from . import terms as T
from .terms import Undecided

MAX_PATHS = 96
MAX_DEPTH = 10
VISITED = set()       # (crate, body path) of every body the interpreter executed
UNPROVED = {}         # (crate, body path) -> {description} of panic obligations left unproved on a completed path


class Target:
    __slots__ = ("cell", "path")

    def __init__(self, cell, path=()):
        self.cell = cell
        self.path = tuple(path)

    def ext(self, step):
        return Target(self.cell, self.path + (step,))

    def key(self):
        return (self.cell, self.path)

    def __repr__(self):
        return "@%s%s" % (self.cell, "".join("/%s" % (s,) for s in self.path))


def vunit():
    return ("unit",)


def vsize(l):
    return ("size", lin(l))


def vbool(c):
    if c is True:
        return ("bool", ("true",))
    if c is False:
        return ("bool", ("false",))
    return ("bool", c)


def vbytes(b):
    return ("bytes", b)


def vint(t):
    return ("int", t)


def vref(t, mut=False):
    return ("ref", t)


def vstruct(name, fields):
    return ("struct", name, dict(fields))


def venum(adt, idx, name, fields):
    return ("enum", adt, idx, name, list(fields))


def vsome(v):
    return venum("core::option::Option", 1, "Some", [v])


def vnone():
    return venum("core::option::Option", 0, "None", [])


class State:
    def __init__(self):
        self.heap = {}
        self.F = Facts()
        self.conds = []
        self.events = []
        self.oblig = []
        self.loopmode = {}
        self.wlog = None
        self.rlog = None
        self.rbw = None       # cells read before any write to them since the logs were reset
        self.decomp = {}

    def fork(self):
        s = State()
        s.heap = dict(self.heap)
        s.F = self.F.copy()
        s.conds = list(self.conds)
        s.events = list(self.events)
        s.oblig = list(self.oblig)
        s.loopmode = dict(self.loopmode)
        s.wlog = None if self.wlog is None else list(self.wlog)
        s.rlog = None if self.rlog is None else list(self.rlog)
        s.rbw = None if self.rbw is None else set(self.rbw)
        s.decomp = dict(self.decomp)
        return s

    def assume(self, cond, note=None):
        self.conds.append(cond)
        self.F.add_cond(cond)
        if cond[0] in ("ge", "lt", "eq", "ne"):
            self.F.saturate(cond[1].symbols())


class Frame:
    _ids = itertools.count(1)

    def __init__(self, interp, crate, body, depth):
        self.id = next(Frame._ids)
        self.crate = crate
        self.body = body
        self.depth = depth
        self.headers = loop_headers(body)

    def cell(self, local):
        return ("L", self.id, local)

    def lty(self, local):
        return self.crate.types[self.body["locals"][local]["ty"]]


def natural_loop(body, H):
    """blocks of the natural loop(s) with header H (normal edges)."""
    key = ("_loop", H)
    if key in body:
        return body[key]
    from . import cfg as G
    sc = G.succs(body)
    preds = {}
    for a, bs_ in sc.items():
        if body["blocks"][a]["cleanup"]:
            continue
        for b in bs_:
            preds.setdefault(b, []).append(a)
    dom = G.dominators(body)
    nodes = {H}
    stack = [a for a in preds.get(H, []) if a in dom and H in dom[a]]
    while stack:
        n = stack.pop()
        if n in nodes:
            continue
        nodes.add(n)
        stack.extend(preds.get(n, []))
    body[key] = nodes
    return nodes


def loop_headers(body):
    if "_headers" in body:
        return body["_headers"]
    blocks = body["blocks"]
    succ = {}
    for i, bb in enumerate(blocks):
        if bb["cleanup"]:
            continue
        t = bb["term"]
        k = t["k"]
        s = []
        if k == "goto":
            s = [t["target"]]
        elif k == "switch":
            s = [b for _, b in t["arms"]] + [t["otherwise"]]
        elif k in ("call", "assert", "drop"):
            if t.get("target") is not None:
                s = [t["target"]]
        succ[i] = s
    headers = set()
    color = {}
    stack = [(0, iter(succ.get(0, [])))]
    color[0] = 1
    while stack:
        node, it = stack[-1]
        adv = False
        for nx in it:
            c = color.get(nx, 0)
            if c == 1:
                headers.add(nx)
            elif c == 0:
                color[nx] = 1
                stack.append((nx, iter(succ.get(nx, []))))
                adv = True
                break
        if not adv:
            color[node] = 2
            stack.pop()
    body["_headers"] = headers
    return headers


class Ctx:
    """per-analysis context: type-level symbols and trait bindings."""

    def __init__(self):
        self.param_len = {}      # generic param name -> Lin (typenum value)
        self.alias_len = {}      # (assoc name) -> Lin
        self.trait_impl = {}     # trait path -> (crate, impl)
        self.extra = {}


def _widened_from(at, w):
    """atom `cast_u<a>_to_u<w>(t)` with a < w (a zero-extension): returns a, else None."""
    if at[0] != "ifn" or len(at[2]) != 1:
        return None
    mm = re.match(r"^cast_u(\d+)_to_u(\d+)$", at[1])
    if not mm or int(mm.group(2)) != w or int(mm.group(1)) >= w:
        return None
    inner = at[2][0]
    if not (isinstance(inner, tuple) and inner and inner[0] == "int" and inner[1] == int(mm.group(1))):
        return None
    return int(mm.group(1))


def _trunc_of_widened(t, w):
    """truncation to u<w> of an integer term over u<W>, W > w, all of whose atoms are zero-extensions
    of u<w> values: truncation is a ring homomorphism Z/2^W -> Z/2^w and undoes the extension, so
    `(x as u128 + 1) as u64` is `x + 1` in u64 (wrapping).  None if some atom is of another kind."""
    W = t[1]
    if W <= w:
        return None
    acc = T.iconst(w, t[2])
    for at, k in t[3]:
        if _widened_from(at, W) != w:
            return None
        acc = T.iadd(acc, T.imulc(at[2][0], k % (1 << w)))
    return acc


class Interp:
    def __init__(self, facts, ctx=None):
        self.facts = facts
        self.ctx = ctx or Ctx()
        from . import prims
        self.prims = prims
        self.trace = False
        self.tyenv = [{}]     # stack: generic parameter name -> (crate, type index) bound at the call

    # ------------------------------------------------------------ types
    def tn_lin(self, cr, tix):
        """typenum type -> Lin"""
        t = cr.types[tix]
        k = t["k"]
        if k == "param":
            nm = t["name"]
            b = self.tyenv[-1].get(nm)
            if b is not None and b != (cr.name, tix):
                c2 = self.facts.crates[b[0]]
                if c2.types[b[1]]["k"] != "param" or c2.types[b[1]]["name"] != nm:
                    return self.tn_lin(c2, b[1])
            if nm in self.ctx.param_len:
                return self.ctx.param_len[nm]
            raise Undecided("no length for type parameter %s" % nm)
        if k == "adt":
            a = t["adt"]
            if a.endswith("typenum::UTerm") or a.endswith("uint::UTerm"):
                return ZERO
            if a.endswith("UInt"):
                hi = self.tn_lin(cr, t["args"][0]["ty"])
                lo = cr.types[t["args"][1]["ty"]]["adt"]
                return hi * 2 + (1 if lo.endswith("B1") else 0)
            raise Undecided("typenum adt %s" % a)
        if k == "alias":
            d = t["alias_def"]
            nm = d.split("::")[-1]
            targs = [a["ty"] for a in t["args"] if "ty" in a]
            if nm in ("BlockSize", "ParBlocksSize", "IvSize"):
                key = nm
                if key in self.ctx.alias_len:
                    return self.ctx.alias_len[key]
                raise Undecided("no length for %s" % t["s"])
            if nm == "Output":
                tr = d.split("::")[-2] if "::" in d else ""
                if tr in ("Add",):
                    return self.tn_lin(cr, targs[0]) + self.tn_lin(cr, targs[1])
                if tr in ("PartialDiv", "Div"):
                    a = self.tn_lin(cr, targs[0])
                    b = self.tn_lin(cr, targs[1])
                    q = a.div_sym(b)
                    if q is not None:
                        return q
                    key = ("quot", a, b)
                    if key in self.ctx.alias_len:
                        return self.ctx.alias_len[key]
                    raise Undecided("quotient %r / %r" % (a, b))
                if tr == "Mul":
                    return self.tn_lin(cr, targs[0]) * self.tn_lin(cr, targs[1])
            raise Undecided("typenum alias %s" % t["s"])
        raise Undecided("typenum type %s" % t["s"])

    def sizeof(self, cr, tix):
        t = cr.types[tix]
        k = t["k"]
        if k == "param":
            b = self.tyenv[-1].get(t["name"])
            if b is not None:
                c2 = self.facts.crates[b[0]]
                t2 = c2.types[b[1]]
                if not (t2["k"] == "param" and t2["name"] == t["name"]):
                    return self.sizeof(c2, b[1])
        if k == "uint" or k == "int":
            nm = t["name"]
            if nm in ("usize", "isize"):
                return lin(8)
            return lin(int(nm[1:]) // 8)
        if k == "bool":
            return ONE
        if k == "adt":
            a = t["adt"]
            if a.endswith("::Array") and len([x for x in t["args"] if "ty" in x]) == 2:
                targs = [x["ty"] for x in t["args"] if "ty" in x]
                return self.sizeof(cr, targs[0]) * self.tn_lin(cr, targs[1])
            raise Undecided("sizeof adt %s" % t["s"])
        if k == "array":
            ln = t["len"]
            try:
                nn = int(str(ln).split("_")[0])
            except ValueError:
                raise Undecided("array len %s" % ln)
            return self.sizeof(cr, t["inner"]) * nn
        if k == "alias" and "Block" in t["s"]:
            raise Undecided("sizeof alias %s" % t["s"])
        raise Undecided("sizeof %s" % t["s"])

    def is_bytes_ty(self, cr, tix):
        """types whose values are modelled as byte strings."""
        t = cr.types[tix]
        k = t["k"]
        if k == "param":
            b = self.tyenv[-1].get(t["name"])
            if b is not None:
                c2 = self.facts.crates[b[0]]
                t2 = c2.types[b[1]]
                if not (t2["k"] == "param" and t2["name"] == t["name"]):
                    return self.is_bytes_ty(c2, b[1])
        if k == "uint" and t["name"] == "u8":
            return True
        if k == "adt" and t["adt"].endswith("::Array"):
            return True
        if k in ("array", "slice"):
            return True
        return False

    def elem_ty(self, cr, tix):
        t = cr.types[tix]
        if t["k"] == "adt" and t["adt"].endswith("::Array"):
            return [x["ty"] for x in t["args"] if "ty" in x][0]
        if t["k"] in ("array", "slice"):
            return t["inner"]
        if t["k"] == "ref":
            return self.elem_ty(cr, t["inner"])
        raise Undecided("elem type of %s" % t["s"])

    # ------------------------------------------------------------ memory
    def load_cell(self, st, cell):
        if cell not in st.heap:
            raise Undecided("read of uninitialised cell %r" % (cell,))
        return st.heap[cell]

    def load(self, st, tg, cr=None, tix=None, log=True):
        v = self.load_cell(st, tg.cell)
        v = self._walk(st, v, tg.path, tg)
        if log and st.rlog is not None:
            st.rlog.append((tg.cell, tg.path))
            if st.rbw is not None and tg.cell not in st.rbw and not any(c == tg.cell for c, _ in (st.wlog or ())):
                st.rbw.add(tg.cell)
        if tix is not None:
            v = self.decode(st, v, cr, tix)
        return v

    def _walk(self, st, v, path, tg):
        for i, s in enumerate(path):
            if s[0] == "f":
                if v[0] == "struct":
                    if s[1] not in v[2]:
                        raise Undecided("no field %s in %s" % (s[1], v[1]))
                    v = v[2][s[1]]
                elif v[0] == "tuple":
                    v = v[1][s[1]]
                elif v[0] == "enum":
                    v = v[4][s[1]]
                elif v[0] == "closure" and isinstance(s[1], int) and s[1] < len(v[2]):
                    v = v[2][s[1]]
                elif v[0] == "bytes" and s[1] in (0, "0"):
                    pass      # hybrid_array::Array is a transparent wrapper: `.0` is the inner array
                else:
                    raise Undecided("field %s of %s value at %r" % (s[1], v[0], tg))
            elif s[0] == "dc":
                if v[0] != "symres":
                    raise Undecided("downcast of %s value at %r" % (v[0], tg))
                if s[1] != 0 or i + 1 >= len(path) or path[i + 1] != ("f", 0):
                    raise Undecided("payload of the Err variant of a symbolic Result")
                # the value inside Ok(..) of a symbolic conversion result
                return self._walk(st, ("symval", ("okval", v[1])), path[i + 2:], tg)
            elif s[0] == "br":
                if v[0] != "bytes":
                    raise Undecided("byte range of %s value at %r" % (v[0], tg))
                v = vbytes(T.bslice(v[1], s[1], s[2], st.F))
            else:
                raise Undecided("path step %r" % (s,))
        return v

    def decode(self, st, v, cr, tix):
        """bytes loaded at an integer-typed place -> integer value."""
        t = cr.types[tix]
        if v[0] == "bytes" and t["k"] == "uint" and t["name"] != "u8":
            if t["name"] == "usize":
                return ("unknown", "usize from bytes")
            w = int(t["name"][1:])
            return vint(T.ifrombytes("ne", w, v[1], st.F))
        return v

    def encode(self, st, v):
        if v[0] == "int":
            return vbytes(T.itobytes("ne", v[1], st.F))
        return v

    def store(self, st, tg, val):
        if st.wlog is not None:
            st.wlog.append((tg.cell, tg.path))
        if not tg.path:
            st.heap[tg.cell] = val
            return
        old = self.load_cell(st, tg.cell) if tg.cell in st.heap else None
        st.heap[tg.cell] = self._upd(st, old, tg.path, val, tg)

    def _upd(self, st, old, path, val, tg):
        if not path:
            return val
        s = path[0]
        if s[0] == "f":
            if old is None:
                raise Undecided("field store into uninitialised %r" % tg)
            if old[0] == "struct":
                d = dict(old[2])
                d[s[1]] = self._upd(st, d.get(s[1]), path[1:], val, tg)
                return ("struct", old[1], d)
            if old[0] == "tuple":
                l = list(old[1])
                l[s[1]] = self._upd(st, l[s[1]], path[1:], val, tg)
                return ("tuple", l)
            raise Undecided("field store into %s" % old[0])
        if s[0] == "br":
            if old is None or old[0] != "bytes":
                raise Undecided("byte store into %s at %r" % (old and old[0], tg))
            if len(path) > 1:
                sub = vbytes(T.bslice(old[1], s[1], s[2], st.F))
                val = self._upd(st, sub, path[1:], val, tg)
            val = self.encode(st, val)
            if val[0] != "bytes":
                raise Undecided("store of %s into bytes at %r" % (val[0], tg))
            if not st.F.prove_eq(T.blen(val[1]) - s[2]):
                raise Undecided("store length mismatch %r vs %r at %r" % (T.blen(val[1]), s[2], tg))
            return vbytes(T.bwrite(old[1], s[1], val[1], st.F))
        raise Undecided("store path %r" % (s,))

    def br(self, tg, lo, ln):
        """sub-range of a bytes location; composes with a trailing br."""
        lo = lin(lo)
        ln = lin(ln)
        if tg.path and tg.path[-1][0] == "br":
            b = tg.path[-1]
            return Target(tg.cell, tg.path[:-1] + (("br", b[1] + lo, ln),))
        return tg.ext(("br", lo, ln))

    def tlen(self, st, tg):
        """byte length of the bytes location tg."""
        if tg.path and tg.path[-1][0] == "br":
            return tg.path[-1][2]
        v = self.load(st, tg, log=False)
        if v[0] != "bytes":
            raise Undecided("length of %s" % v[0])
        return T.blen(v[1])

    # ------------------------------------------------------------ places / operands
    def place_ty(self, fr, p):
        if p["proj"]:
            return p["proj"][-1]["ty"]
        return fr.body["locals"][p["local"]]["ty"]

    def place_target(self, st, fr, p):
        tg = Target(fr.cell(p["local"]))
        cur_ty = fr.body["locals"][p["local"]]["ty"]
        for e in p["proj"]:
            k = e["k"]
            if k == "deref":
                v = self.load(st, tg)
                if v[0] != "ref":
                    raise Undecided("deref of %s (%s) in %s" % (v[0], v[1:2], fr.body["path"]))
                tg = v[1]
            elif k == "field":
                v = None
                nm = e.get("name")
                # tuple-like: numeric
                cur = fr.crate.types[cur_ty]
                if cur["k"] in ("tuple", "closure") or nm is None:
                    tg = tg.ext(("f", e["i"]))
                elif cur["k"] == "adt" and cur["adt_kind"] == "enum":
                    tg = tg.ext(("f", e["i"]))
                elif nm.isdigit():
                    if self.is_bytes_ty(fr.crate, cur_ty):
                        pass      # `.0` of the transparent Array wrapper: same bytes
                    else:
                        tg = tg.ext(("f", int(nm)))
                else:
                    tg = tg.ext(("f", nm))
            elif k == "downcast":
                try:
                    dv = self.load(st, tg, log=False)
                except Undecided:
                    dv = None
                if dv is not None and dv[0] == "symres":
                    tg = tg.ext(("dc", e.get("variant")))      # which variant's payload is meant
            elif k == "index":
                iv = self.load(st, Target(fr.cell(e["local"])))
                if iv[0] != "size":
                    raise Undecided("index by %s" % iv[0])
                esz = self.sizeof(fr.crate, e["ty"])
                self.oblig_index(st, fr, tg, iv[1], esz, "index")
                tg = self.br(tg, iv[1] * esz, esz)
            elif k == "constindex":
                esz = self.sizeof(fr.crate, e["ty"])
                if e["from_end"]:
                    total = self.tlen(st, tg)
                    tg = self.br(tg, total - esz * e["offset"], esz)
                else:
                    self.oblig_index(st, fr, tg, lin(e["offset"]), esz, "constindex")
                    tg = self.br(tg, esz * e["offset"], esz)
            elif k == "subslice":
                # `[a, rest @ ..]` / `[.., rest]` patterns: the elements from `from` up to `to` (counted
                # from the end when from_end); the pattern's length test has already been taken
                et = fr.crate.types[e["ty"]]
                inner = et.get("inner")
                if inner is None:
                    raise Undecided("subslice of %s" % et["s"])
                esz = self.sizeof(fr.crate, inner)
                total = self.tlen(st, tg)
                lo = esz * e["from"]
                hi = (total - esz * e["to"]) if e["from_end"] else lin(esz * e["to"])
                tg = self.br(tg, lo, hi - lo)
            else:
                raise Undecided("projection %s" % k)
            cur_ty = e["ty"]
        return tg, cur_ty

    def oblig_index(self, st, fr, tg, idx, esz, what):
        try:
            total = self.tlen(st, tg)
        except Undecided:
            return
        ok = st.F.prove_ge(idx) and st.F.prove_ge(total - (idx + 1) * esz)
        st.oblig.append({"kind": "bounds", "fn": fr.body["path"], "crate": fr.crate.name, "ok": ok, "detail": "%s %r < len %r/%r" % (what, idx, total, esz)})
        if not ok:
            st.F.add_ge(idx)
            st.F.add_ge(total - (idx + 1) * esz)

    def eval_place(self, st, fr, p):
        tg, ty = self.place_target(st, fr, p)
        return self.load(st, tg, fr.crate, ty)

    def eval_operand(self, st, fr, op):
        k = op["k"]
        if k in ("copy", "move"):
            return self.eval_place(st, fr, op["place"])
        if k == "const":
            return self.eval_const(st, fr, op)
        raise Undecided("operand %s" % k)

    def eval_const(self, st, fr, op):
        t = fr.crate.types[op["ty"]]
        if "fn" in op:
            return ("fn", op["fn"])
        if "int" in op:
            v = int(op["int"])
            if t["k"] == "bool":
                return vbool(bool(v))
            if t["k"] in ("uint", "int"):
                if t["name"] in ("usize", "isize"):
                    if t["name"] == "isize" and v >= 1 << 63:
                        v -= 1 << 64
                    return vsize(v)
                if t["name"] == "u8":
                    return vbytes(T.itobytes("ne", T.iconst(8, v)))
                return vint(T.iconst(int(t["name"][1:]), v))
            return ("unknown", "const")
        if "uneval" in op:
            u = op["uneval"]
            if u.endswith("Unsigned::USIZE"):
                return vsize(self.tn_lin(fr.crate, op["uneval_args"][0]["ty"]))
            for nm_, w_ in (("Unsigned::U32", 32), ("Unsigned::U64", 64), ("Unsigned::U16", 16), ("Unsigned::U128", 128)):
                if u.endswith(nm_):
                    return vint(T.isize(w_, self.tn_lin(fr.crate, op["uneval_args"][0]["ty"])))
            if "promoted" in op:
                return self.eval_promoted(st, fr, op["promoted"])
            # non-generic named const of the crate: try the const table
            cv = self.ctx.extra.get(("const", u))
            if cv is not None:
                return cv
            cv = self.assoc_const(fr.crate, op)
            if cv is not None:
                return cv
            raise Undecided("unevaluated const %s" % op.get("text"))
        if t["k"] == "tuple" and not t["elems"]:
            return vunit()
        if t["k"] == "ref" and fr.crate.types[t["inner"]]["k"] == "str":
            cell = ("K", op.get("text", ""))
            st.heap[cell] = ("str", op.get("text", ""))
            return vref(Target(cell))
        if t["k"] == "adt":
            return ("zst", t["adt"])
        if t["k"] in ("fndef", "closure"):
            return ("fn", {"path": t["fn"], "args": [], "local": True})
        # a const generic parameter (`const ENCRYPT: bool`, `const N: usize`) bound by the call
        b = self.tyenv[-1].get(str(op.get("text", "")).strip())
        if isinstance(b, tuple) and b and b[0] == "constval":
            c = b[1]
            if t["k"] == "bool" and c in ("true", "false"):
                return vbool(c == "true")
            digits = c.split("_")[0]
            if digits.isdigit() and t["k"] in ("uint", "int"):
                v = int(digits)
                if t["name"] in ("usize", "isize"):
                    return vsize(v)
                if t["name"] == "u8":
                    return vbytes(T.itobytes("ne", T.iconst(8, v)))
                return vint(T.iconst(int(t["name"][1:]), v))
        return ("unknown", "const %s" % op.get("text"))

    def eval_promoted(self, st, fr, idx):
        proms = fr.body.get("promoted") or []
        if idx >= len(proms):
            raise Undecided("promoted constant %d not available" % idx)
        pb = proms[idx]
        body = {"path": fr.body["path"] + "::promoted[%d]" % idx, "locals": pb["locals"], "blocks": pb["blocks"],
                "arg_count": 0, "promoted": [], "span": fr.body["span"], "kind": "promoted"}
        key = ("_promoted", idx)
        if key not in fr.body:
            fr.body[key] = body
        body = fr.body[key]
        res = self.inline(st, fr.crate, body, [], fr.depth + 1)
        if len(res) != 1:
            raise Undecided("promoted constant with several paths")
        return res[0][1]

    # ------------------------------------------------------------ rvalues
    def eval_rvalue(self, st, fr, rv, dest_ty):
        k = rv["k"]
        if k == "use":
            return self.eval_operand(st, fr, rv["op"])
        if k == "ref" or k == "rawptr":
            tg, _ = self.place_target(st, fr, rv["place"])
            return vref(tg)
        if k == "copyforderef":
            return self.eval_place(st, fr, rv["place"])
        if k == "cast":
            v = self.eval_operand(st, fr, rv["op"])
            return self.cast(st, fr, rv, v)
        if k == "binop":
            a = self.eval_operand(st, fr, rv["a"])
            b = self.eval_operand(st, fr, rv["b"])
            return self.binop(st, fr, rv["op"], a, b)
        if k == "unop":
            a = self.eval_operand(st, fr, rv["a"])
            if rv["op"] == "PtrMetadata" and a[0] == "ref" and rv["a"]["k"] in ("copy", "move"):
                aty = fr.crate.types[self.place_ty(fr, rv["a"]["place"])]
                inner = fr.crate.types[aty["inner"]] if aty["k"] in ("ref", "rawptr") else None
                if inner is not None and inner["k"] == "slice":
                    esz = self.sizeof(fr.crate, inner["inner"])
                    ln = self.tlen(st, a[1])
                    q = ln.div_sym(esz)
                    if q is None:
                        raise Undecided("slice length %r not a multiple of %r" % (ln, esz))
                    return vsize(q)
            return self.unop(st, fr, rv["op"], a)
        if k == "discriminant":
            v = self.eval_place(st, fr, rv["place"])
            if v[0] == "enum":
                if v[1] == "core::cmp::Ordering":
                    return vsize({0: 255, 1: 0, 2: 1}[v[2]])      # i8 discriminants -1, 0, 1 as switch bits
                return vsize(v[2])
            if v[0] in ("symopt", "symres"):
                return ("symdisc", v)
            raise Undecided("discriminant of %s" % (v[0],))
        if k == "aggregate":
            ops = [self.eval_operand(st, fr, o) for o in rv["ops"]]
            agg = rv["agg"]
            if agg == "tuple":
                if not ops:
                    return vunit()
                return ("tuple", ops)
            if agg == "adt":
                t = fr.crate.types[dest_ty]
                if t["k"] == "adt" and t["adt_kind"] == "enum":
                    return venum(rv["adt"], rv["variant"], rv["variant_name"], ops)
                if rv["adt"].endswith("ops::Range"):
                    return ("range", ops[0], ops[1])
                if self.is_bytes_ty(fr.crate, dest_ty) and len(ops) == 1:
                    # hybrid_array::Array([..]) — the transparent wrapper around the inner array
                    o = ops[0]
                    if o[0] == "int":
                        o = self.encode(st, o)
                    if o[0] == "bytes":
                        return o
                # fields of tuple structs are addressed by position (see place_target)
                return vstruct(rv["adt"], {(int(f) if isinstance(f, str) and f.isdigit() else f): o for f, o in zip(rv["fields"], ops)})
            if agg == "closure":
                # the generic parameters in scope where the closure is created are the ones its body sees
                return ("closure", rv["fn"], ops, tuple(sorted(self.tyenv[-1].items())))
            if agg == "array":
                if all(o[0] == "bytes" for o in ops):
                    b = ()
                    for o in ops:
                        b = b + o[1]
                    return vbytes(T.bnorm(b, st.F))
            raise Undecided("aggregate %s" % agg)
        if k == "repeat":
            v = self.eval_operand(st, fr, rv["op"])
            # [x; N]: N copies of x
            total = self.sizeof(fr.crate, dest_ty)
            if v[0] == "int":
                v = self.encode(st, v)
            if v[0] == "bytes":
                esz = T.blen(v[1])
                n = self.prims.count_of(st, total, esz)
                if not v[1] or all(p_[0] == "x" and all(a_[0] == "ib" and not a_[3][3] and a_[3][2] == 0 for a_, _o in p_[2]) for p_ in v[1]):
                    return vbytes(T.bzero(total))
                j = T.fresh("$r")
                return vbytes(T.bnorm((("m", j, ZERO, n, esz, v[1]),), st.F))
            raise Undecided("repeat rvalue of %s" % v[0])
        raise Undecided("rvalue %s" % k)

    def cast(self, st, fr, rv, v):
        ck = rv["cast"]
        t = fr.crate.types[rv["ty"]]
        if ck.startswith("PointerCoercion") or ck in ("PtrToPtr", "Transmute"):
            return v
        if ck == "IntToInt":
            if t["k"] in ("uint", "int"):
                if t["name"] in ("usize", "isize"):
                    if v[0] == "size":
                        return v
                    if v[0] == "int" and not v[1][3]:
                        return vsize(v[1][2])
                    if v[0] == "symdisc":
                        return v
                    return ("unknown", "int->usize")
                w = int(t["name"][1:])
                if v[0] == "size":
                    if w == 8:
                        raise Undecided("usize -> u8 cast")
                    return vint(T.isize(w, v[1]))
                if v[0] == "int":
                    if v[1][1] == w:
                        return v
                    if not v[1][3]:
                        return vint(T.iconst(w, v[1][2]))
                    tr = _trunc_of_widened(v[1], w)
                    if tr is not None:
                        return vint(tr)
                    return vint(T.ifn(w, "cast_u%d_to_u%d" % (v[1][1], w), v[1]))
            if v[0] == "symdisc":
                return v
        raise Undecided("cast %s to %s" % (ck, t["s"]))

    @staticmethod
    def _sz_nonneg(st, t):
        """every size monomial of integer term t is a single size symbol (a value in [0, 2^64))."""
        for at, _ in t[3]:
            if at[0] == "sz":
                for m, _k in at[1].t:
                    if len(m) != 1:
                        return False      # a product of two sizes may reach 2^128
        return True

    def binop(self, st, fr, op, a, b):
        if a[0] == "size" and b[0] == "size":
            x, y = a[1], b[1]
            if op in ("Add", "AddUnchecked"):
                return vsize(x + y)
            if op in ("Sub", "SubUnchecked"):
                return vsize(x - y)
            if op in ("Mul", "MulUnchecked"):
                return vsize(x * y)
            if op == "AddWithOverflow":
                return ("tuple", [vsize(x + y), vbool(False)])
            if op == "SubWithOverflow":
                return ("tuple", [vsize(x - y), vbool(("lt", x - y))])
            if op == "MulWithOverflow":
                return ("tuple", [vsize(x * y), vbool(False)])
            if op == "Lt":
                return vbool(("lt", x - y))
            if op == "Le":
                return vbool(("ge", y - x))
            if op == "Gt":
                return vbool(("lt", y - x))
            if op == "Ge":
                return vbool(("ge", x - y))
            if op == "Eq":
                return vbool(("eq", x - y))
            if op == "Ne":
                return vbool(("ne", x - y))
            if op in ("Div", "Rem"):
                q = x.div_sym(y)
                if q is not None:
                    return vsize(q) if op == "Div" else vsize(0)
                if st.F.prove_ge(y - 1) and st.F.prove_ge(x):
                    # ceiling-division idiom (a + y - 1) / y over a known decomposition a = k*y + d
                    for (t2, c2), (k2, d2) in list(st.decomp.items()):
                        if c2 == y and (x - t2 - y + 1) == ZERO and op == "Div":
                            if st.F.prove_eq(d2):
                                return vsize(k2)
                            if st.F.prove_ge(d2 - 1):
                                return vsize(k2 + 1)
                            return ("sizefork", ("eq", d2), vsize(k2), vsize(k2 + 1))
                    off = self.prims.decompose_offset(st, x, y)
                    if off is not None and off[0] is not None:
                        # the quotient hinges on a borrow from a known remainder: split the path here
                        i_ = 0 if op == "Div" else 1
                        return ("sizefork", off[0], vsize(off[1][i_]), vsize(off[2][i_]))
                    k, d = self.prims.decompose(st, x, y)
                    return vsize(k) if op == "Div" else vsize(d)
            if op in ("Div", "Rem", "BitAnd", "BitOr", "BitXor", "Shl", "Shr", "ShlUnchecked", "ShrUnchecked"):
                # uninterpreted size operation: one opaque non-negative symbol per distinct expression
                key = "$%s(%r,%r)" % (op, x, y)
                st.F.add_ge(Lin.sym(key))
                return vsize(Lin.sym(key))
            raise Undecided("size binop %s" % op)
        if a[0] == "int" and b[0] == "int":
            x, y = a[1], b[1]
            w = x[1]
            if op in ("Add", "AddUnchecked"):
                return vint(T.iadd(x, y))
            if op in ("Sub", "SubUnchecked"):
                return vint(T.isub(x, y))
            if op == "SubWithOverflow":
                # MAX - x never overflows
                ok = (not x[3]) and x[2] == (1 << w) - 1
                return ("tuple", [vint(T.isub(x, y)), vbool(False) if ok else ("bool", ("opaque", "int-overflow", T.ishow(x), T.ishow(y)))])
            if op == "AddWithOverflow":
                # sums of a few converted sizes (each < 2^64) and small constants cannot reach 2^w for
                # a type wider than usize: `i as u128 + 1`
                def small(t):
                    if w <= 64 or t[2] >= (1 << 64):
                        return False
                    def small_atom(at):
                        if at[0] == "ifn" and _widened_from(at, w) is not None and _widened_from(at, w) <= 64:
                            return True       # zero-extension of a value of at most 64 bits
                        return at[0] == "sz" and not at[1].c and all(isinstance(k_, int) and 0 < k_ for _, k_ in at[1].t) \
                            and sum(k_ for _, k_ in at[1].t) < (1 << 16)
                    return all(small_atom(at) and 0 < k < (1 << 16) for at, k in t[3])
                if small(x) and small(y) and self._sz_nonneg(st, x) and self._sz_nonneg(st, y):
                    return ("tuple", [vint(T.iadd(x, y)), vbool(False)])
                return ("tuple", [vint(T.iadd(x, y)), ("bool", ("opaque", "int-overflow", T.ishow(x), T.ishow(y)))])
            if op in ("Eq", "Ne"):
                eq = T.iequal(x, y, st.F)
                if eq:
                    return vbool(op == "Eq")
                return ("bool", ("opaque", "int-" + op, T.ishow(x), T.ishow(y)))
            if op in ("Lt", "Le", "Gt", "Ge"):
                # unsigned comparison: decided for constants and for provably equal terms, otherwise
                # an opaque condition in the canonical form  x < y  (both outcomes are explored)
                if not x[3] and not y[3]:
                    r = {"Lt": x[2] < y[2], "Le": x[2] <= y[2], "Gt": x[2] > y[2], "Ge": x[2] >= y[2]}[op]
                    return vbool(r)
                if T.iequal(x, y, st.F):
                    return vbool(op in ("Le", "Ge"))
                if op == "Lt":
                    return ("bool", ("opaque", "int-Lt", T.ishow(x), T.ishow(y)))
                if op == "Gt":
                    return ("bool", ("opaque", "int-Lt", T.ishow(y), T.ishow(x)))
                if op == "Ge":
                    return ("bool", ("not", ("opaque", "int-Lt", T.ishow(x), T.ishow(y))))
                return ("bool", ("not", ("opaque", "int-Lt", T.ishow(y), T.ishow(x))))
            if op in ("BitXor", "BitAnd", "BitOr", "Shl", "Shr", "Mul", "Div", "Rem", "ShlUnchecked", "ShrUnchecked", "MulUnchecked"):
                if op in ("BitXor", "BitAnd", "BitOr", "Mul", "MulUnchecked") and T.akey(y) < T.akey(x):
                    x, y = y, x
                return vint(T.ifn(w, op, x, y))
            raise Undecided("int binop %s" % op)
        if a[0] == "int" and b[0] in ("int", "size") and op in ("Shl", "Shr", "ShlUnchecked", "ShrUnchecked"):
            return vint(T.ifn(a[1][1], op, a[1], b[1]))
        if a[0] == "bytes" and b[0] == "bytes" and op == "BitXor":
            return vbytes(T.bxor(a[1], b[1], st.F))
        if a[0] == "bool" and b[0] == "bool":
            ca, cb = a[1], b[1]
            if op == "BitAnd":
                if ca == ("true",):
                    return b
                if cb == ("true",):
                    return a
                if ca == ("false",) or cb == ("false",):
                    return vbool(False)
                return vbool(("and", ca, cb))
            if op == "BitOr":
                if ca == ("false",):
                    return b
                if cb == ("false",):
                    return a
                if ca == ("true",) or cb == ("true",):
                    return vbool(True)
                return vbool(("or", ca, cb))
            if op in ("Eq", "Ne"):
                if cb == ("true",):
                    return a if op == "Eq" else vbool(neg_cond(ca))
                if cb == ("false",):
                    return vbool(neg_cond(ca)) if op == "Eq" else a
        if a[0] == "symdisc" and b[0] == "size":
            return ("bool", ("opaque", "symdisc", repr(a[1]), repr(b[1])))
        raise Undecided("binop %s on %s,%s" % (op, a[0], b[0]))

    def unop(self, st, fr, op, a):
        if op == "Not" and a[0] == "bool":
            return vbool(neg_cond(a[1])) if a[1] not in (("true",), ("false",)) else vbool(a[1] == ("false",))
        if op == "PtrMetadata" and a[0] == "ref":
            tg = a[1]
            ln = self.tlen(st, tg)
            esz = a[2] if len(a) > 2 else None
            return ("bytelen", ln)
        if op == "Not" and a[0] == "int":
            # bitwise complement of a w-bit unsigned value:  !x = (2^w - 1) - x  (mod 2^w)
            w = a[1][1]
            return vint(T.isub(T.iconst(w, (1 << w) - 1), a[1]))
        if op == "Neg" and a[0] == "int":
            w = a[1][1]
            return vint(T.isub(T.iconst(w, 0), a[1]))
        raise Undecided("unop %s on %s" % (op, a[0]))

    # ------------------------------------------------------------ execution
    def exec_from(self, st, fr, bb, stop_at=None, start=False, region=None):
        """explore paths from block bb; returns list of ('return'|'stop'|'panic'|'exit', state, value).
        region: optional set of blocks; a path leaving it ends as ('exit', state, block)."""
        out = []
        work = [(st, bb, start)]
        steps = 0
        while work:
            st, bb, first = work.pop()
            steps += 1
            if steps > 20000:
                raise Undecided("step limit in %s" % fr.body["path"])
            if bb == stop_at and not first:
                out.append(("stop", st, None))
                continue
            if region is not None and bb not in region:
                out.append(("exit", st, bb))
                continue
            key = (fr.id, bb)
            if bb in fr.headers and st.loopmode.get(key) is None:
                for s2 in self.do_loop(st, fr, bb):
                    work.append((s2, bb, True))
                continue
            if bb in fr.headers and st.loopmode.get(key, ("",))[0] == "done":
                m = st.loopmode[key]
                if len(m) > 1:
                    raise Undecided("summarised loop in %s is entered again after its exit" % fr.body["path"])
                st.loopmode[key] = ("done", 1)
            for item in self.exec_block(st, fr, bb):
                if item[0] == "goto":
                    work.append((item[1], item[2], False))
                else:
                    out.append(item[1:])
            if len(work) + len(out) > MAX_PATHS:
                raise Undecided("too many paths in %s" % fr.body["path"])
        return out

    def exec_block(self, st, fr, bb):
        """returns list of ('goto', st, bb) | ('end', kind, st, value)."""
        return self._exec_block_data(st, fr, bb, fr.body["blocks"][bb])

    def _exec_block_data(self, st, fr, bb, blk):
        for s in blk["stmts"]:
            if s["k"] == "assign":
                tg, ty = self.place_target(st, fr, s["place"])
                try:
                    v = self.eval_rvalue(st, fr, s["rv"], ty)
                except Undecided as e:
                    raise Undecided("%s [%s:%d]" % (e, s["span"]["file"], s["span"]["line"]))
                if v[0] == "sizefork":
                    # value depends on an undecided linear condition: split the path here
                    return self._fork_stmt(st, fr, bb, blk, s, tg, v)
                self.store(st, tg, v)
            elif s["k"] == "setdiscr":
                raise Undecided("setdiscriminant")
            elif s["k"] == "intrinsic":
                pass
        t = blk["term"]
        k = t["k"]
        if k == "goto":
            return [("goto", st, t["target"])]
        if k == "return":
            v = st.heap.get(fr.cell(0), vunit())
            return [("end", "return", st, v)]
        if k == "unreachable":
            return []
        if k == "drop":
            return self.do_drop(st, fr, t)
        if k == "assert":
            c = self.eval_operand(st, fr, t["cond"])
            cond = c[1] if c[0] == "bool" else ("opaque", "assert")
            if not t["expected"]:
                cond = neg_cond(cond)
            ok = st.F.prove_cond(cond)
            st.oblig.append({"kind": "assert:" + t["msg_kind"], "fn": fr.body["path"], "crate": fr.crate.name, "ok": ok, "detail": T.cshow(cond) if cond[0] in ("ge", "lt", "eq", "ne") else repr(cond), "span": t["span"]})
            st.F.add_cond(cond)     # proved or assumed: keep it as an explicit row for the product lemmas
            return [("goto", st, t["target"])]
        if k == "switch":
            d = self.eval_operand(st, fr, t["discr"])
            return self.do_switch(st, fr, t, d)
        if k == "call":
            try:
                res = self.do_call(st, fr, t, bb)
            except Undecided as e:
                if "[" in str(e):
                    raise
                raise Undecided("%s [%s:%d]" % (e, t["span"]["file"], t["span"]["line"]))
            out = []
            for (s2, v) in res:
                if t["target"] is None:
                    out.append(("end", "panic", s2, None))
                    continue
                tg, ty = self.place_target(s2, fr, t["dest"])
                self.store(s2, tg, v)
                out.append(("goto", s2, t["target"]))
            return out
        raise Undecided("terminator %s" % k)

    def do_drop(self, st, fr, t):
        """a value of a workspace type with its own Drop impl goes out of scope: run Drop::drop
        (it may write through references the value holds, e.g. a backend borrowing the owner's state)."""
        ty = fr.crate.types[self.place_ty(fr, t["place"])]
        if ty["k"] == "adt" and ty.get("local"):
            cr = fr.crate
            for im in cr.impls:
                if im.get("trait") == "core::ops::Drop" and im.get("self_adt") == ty["adt"]:
                    body = None
                    for b in cr.bodies_of_impl(im):
                        if b["name"] == "drop":
                            body = b
                    if body is None:
                        break
                    try:
                        tg, _ = self.place_target(st, fr, t["place"])
                        if tg.cell not in st.heap:
                            break          # never initialised on this path (drop flag false)
                    except Undecided:
                        break
                    res = self.inline(st, cr, body, [vref(tg)], fr.depth + 1)
                    return [("goto", s2, t["target"]) for s2, _ in res]
        return [("goto", st, t["target"])]

    def _fork_stmt(self, st, fr, bb, blk, stmt, tg, v):
        """finish block `bb` twice, once per branch of a conditional value."""
        idx = blk["stmts"].index(stmt)
        out = []
        s1 = st.fork()
        s1.assume(v[1])
        s0 = st
        s0.assume(neg_cond(v[1]))
        for s_, val in ((s1, v[2]), (s0, v[3])):
            if s_.F.inconsistent():
                continue
            self.store(s_, tg, val)
            rest = dict(blk)
            rest["stmts"] = blk["stmts"][idx + 1:]
            key = ("_rest", bb, idx)
            fr.body.setdefault("_tmpblocks", {})[key] = rest
            out.extend(self._exec_block_data(s_, fr, bb, rest))
        return out

    def do_switch(self, st, fr, t, d):
        arms = [(int(a), b) for a, b in t["arms"]]
        if d[0] == "size" and d[1].is_const():
            for a, b in arms:
                if a == d[1].c:
                    return [("goto", st, b)]
            return [("goto", st, t["otherwise"])]
        if d[0] == "bool":
            c = d[1]
            if c == ("true",):
                val = 1
            elif c == ("false",):
                val = 0
            elif st.F.prove_cond(c):
                val = 1
                st.F.add_cond(c)
            elif st.F.refute_cond(c):
                val = 0
                st.F.add_cond(neg_cond(c))
            else:
                val = None
            false_t = None
            true_t = t["otherwise"]
            for a, b in arms:
                if a == 0:
                    false_t = b
                elif a == 1:
                    true_t = b
            if false_t is None:
                false_t = t["otherwise"]
            if val is not None:
                return [("goto", st, true_t if val else false_t)]
            s1 = st.fork()
            s1.assume(c)
            s0 = st
            s0.assume(neg_cond(c))
            res = []
            if not s1.F.inconsistent():
                res.append(("goto", s1, true_t))
            if not s0.F.inconsistent():
                res.append(("goto", s0, false_t))
            return res
        if d[0] == "size":
            res = []
            rest = st
            for a, b in arms:
                s1 = rest.fork()
                s1.assume(("eq", d[1] - a))
                if not s1.F.inconsistent():
                    res.append(("goto", s1, b))
                # the remaining arms are taken with the value different from this one
                rest.assume(("ne", d[1] - a))
            if not rest.F.inconsistent():
                res.append(("goto", rest, t["otherwise"]))
            return res
        if d[0] == "symdisc":
            # symbolic Option/Result discriminant: fork on both
            res = []
            for a, b in arms:
                s1 = st.fork()
                s1.conds.append(("opaque", "disc", repr(d[1]), a))
                res.append(("goto", s1, b))
            # `if let Some(x) = ..`: the other variant of the two leaves through `otherwise`
            left = sorted({0, 1} - {a for a, _ in arms})
            if left and t.get("otherwise") is not None:
                if len(left) != 1:
                    raise Undecided("switch on a symbolic discriminant without explicit arms")
                s1 = st.fork()
                s1.conds.append(("opaque", "disc", repr(d[1]), left[0]))
                res.append(("goto", s1, t["otherwise"]))
            return res
        raise Undecided("switch on %s" % (d[0],))

    # ------------------------------------------------------------ calls
    def do_call(self, st, fr, t, bb):
        f = t["func"]
        if f["k"] != "const" or "fn" not in f:
            # a call through a local holding a function pointer (`let decode: fn(..) -> _ = path;`)
            fv = self.eval_operand(st, fr, f) if f["k"] in ("copy", "move") else None
            if fv is None or fv[0] != "fn":
                raise Undecided("indirect call")
            fn = fv[1]
        else:
            fn = f["fn"]
        args = [self.eval_operand(st, fr, a) for a in t["args"]]
        ci = {"fn": fn, "args": args, "fr": fr, "bb": bb, "term": t, "argops": t["args"]}
        return self.call(st, ci)

    def call(self, st, ci):
        fn = ci["fn"]
        fr = ci["fr"]
        r = self.prims.dispatch(self, st, ci)
        if r is not None:
            return r
        # local body (same crate or other analysed crate)
        body = self.find_body(fr.crate, fn)
        if body is not None:
            cr, b = body
            return self.inline(st, cr, b, ci["args"], fr.depth + 1, targs=fn.get("resolved", fn).get("args") if fn.get("resolved", {}).get("path") == b["path"] else fn.get("args"), caller_cr=fr.crate)
        body = self.find_body_by_self_type(fr.crate, fn) or self.find_body_by_receiver(st, fr.crate, fn, ci["args"])
        if body is not None:
            cr, b = body
            # the call names [Self, method params..]; an impl method without impl-level generics has
            # exactly the method params (`fn pick<T>(items: &[T])` of a private trait)
            ta = fn.get("args") or []
            if ta and len(b.get("generics") or []) == len(ta) - 1 and b.get("generics"):
                return self.inline(st, cr, b, ci["args"], fr.depth + 1, targs=ta[1:], caller_cr=fr.crate)
            return self.inline(st, cr, b, ci["args"], fr.depth + 1)
        raise Undecided("unknown callee %s%s" % (fn["path"], (" => " + fn["resolved"]["path"]) if "resolved" in fn else ""))

    def find_body(self, cr, fn):
        res = fn.get("resolved")
        for cand in ([res] if res else []) + [fn]:
            if cand is None:
                continue
            p = cand["path"]
            kr = cand.get("krate")
            c2 = self.facts.crates.get(kr) if kr else cr
            if c2 is None:
                c2 = cr
            if c2.name in ("cipher", "inout"):
                continue
            if p in c2.by_path:
                return c2, c2.by_path[p]
        # trait method bound by context
        tr = fn.get("trait")
        if tr and tr in self.ctx.trait_impl:
            c2, im = self.ctx.trait_impl[tr]
            for b in c2.bodies_of_impl(im):
                if b["name"] == fn["name"]:
                    return c2, b
        return None

    @staticmethod
    def _impls_for_type(c2, tr, t):
        """impls of workspace trait `tr` in crate c2 for the concrete type t (a workspace ADT, or a
        primitive integer / bool such as the `impl CounterWord for u64` a macro writes out)."""
        if t["k"] == "adt":
            return [im for im in c2.impls if im.get("trait") == tr and im.get("self_adt") == t["adt"]]
        if t["k"] in ("uint", "int", "bool"):
            nm = t.get("name", "bool")
            return [im for im in c2.impls if im.get("trait") == tr and "self_adt" not in im and im.get("self") == nm]
        return []

    def assoc_const(self, cr, op):
        """`<T as Trait>::CONST` of a workspace trait, T bound by the generic environment to a
        workspace type whose impl fixes the constant to an integer / bool (static dispatch)."""
        u = op["uneval"]
        targs = [a["ty"] for a in op.get("uneval_args", []) if "ty" in a]
        if "::" not in u or not targs:
            return None
        tr, name = u.rsplit("::", 1)
        tcr, tix = cr, targs[0]
        for _ in range(4):
            t = tcr.types[tix]
            if t["k"] != "param":
                break
            b = self.tyenv[-1].get(t["name"])
            if b is None:
                return None
            tcr, tix = self.facts.crates[b[0]], b[1]
            if tcr.types[tix]["k"] == "param" and tcr.types[tix]["name"] == t["name"]:
                return None
        cands = self._impls_for_type(cr, tr, tcr.types[tix])
        if len(cands) != 1:
            return None
        for it in cands[0].get("items", []):
            if it["name"] == name and "int" in it:
                ct = cr.types[it["ty"]]
                v = int(it["int"])
                if ct["k"] == "bool":
                    return vbool(bool(v))
                if ct["k"] in ("uint", "int"):
                    if ct["name"] in ("usize", "isize"):
                        if ct["name"] == "isize" and v >= 1 << 63:
                            v -= 1 << 64
                        return vsize(v)
                    if ct["name"] == "u8":
                        return vbytes(T.itobytes("ne", T.iconst(8, v)))
                    return vint(T.iconst(int(ct["name"][1:]), v))
        return None

    def find_body_by_self_type(self, cr, fn):
        """`<T as Trait>::method` of a workspace trait with T a generic parameter that the current
        generic environment binds to a workspace type: the impl for that type (static dispatch)."""
        tr = fn.get("trait")
        kr = fn.get("krate")
        c2 = self.facts.crates.get(kr) if kr else cr
        targs = [a["ty"] for a in fn.get("args", []) if "ty" in a]
        if not tr or c2 is None or c2.name in ("cipher", "inout", "core") or not targs:
            return None
        tcr, tix = cr, targs[0]
        for _ in range(4):
            t = tcr.types[tix]
            if t["k"] != "param":
                break
            b = self.tyenv[-1].get(t["name"])
            if b is None:
                return None
            tcr, tix = self.facts.crates[b[0]], b[1]
            if tcr.types[tix]["k"] == "param" and tcr.types[tix]["name"] == t["name"]:
                return None
        cands = self._impls_for_type(c2, tr, tcr.types[tix])
        if len(cands) != 1:
            return None
        for b in c2.bodies_of_impl(cands[0]):
            if b["name"] == fn["name"]:
                return c2, b
        return None

    def find_body_by_receiver(self, st, cr, fn, args):
        """a method of a workspace trait called on a generic receiver: the abstract VALUE of the
        receiver (a struct of a workspace type) selects the impl, as monomorphisation would."""
        tr = fn.get("trait")
        kr = fn.get("krate")
        c2 = self.facts.crates.get(kr) if kr else cr
        if not tr or c2 is None or c2.name in ("cipher", "inout", "core") or not args:
            return None
        v = args[0]
        hops = 0
        while v[0] == "ref" and hops < 4:
            v = self.load(st, v[1], log=False)
            hops += 1
        if v[0] != "struct":
            return None
        adt = v[1]
        cands = [im for im in c2.impls if im.get("trait") == tr and im.get("self_adt") == adt and im.get("self_adt_local")]
        if len(cands) != 1:
            return None
        for b in c2.bodies_of_impl(cands[0]):
            if b["name"] == fn["name"]:
                return c2, b
        # provided method of the trait itself
        for b in c2.bodies:
            if b.get("in_trait") and b["name"] == fn["name"] and b["path"].startswith(tr + "::"):
                return c2, b
        return None

    def inline(self, st, cr, body, args, depth, targs=None, caller_cr=None, env0=None):
        env = dict(env0) if env0 else {}
        if targs is not None and caller_cr is not None:
            names = body.get("generics") or []
            if len(names) == len(targs):
                outer = self.tyenv[-1]
                for nm, a in zip(names, targs):
                    if "ty" in a:
                        t = caller_cr.types[a["ty"]]
                        if t["k"] == "param" and t["name"] in outer:
                            env[nm] = outer[t["name"]]
                        else:
                            env[nm] = (caller_cr.name, a["ty"])
                    elif "const" in a:
                        c = str(a["const"]).strip()
                        if c in outer and isinstance(outer[c], tuple) and outer[c][0] == "constval":
                            env[nm] = outer[c]        # forwarded const parameter
                        else:
                            env[nm] = ("constval", c)
        self.tyenv.append(env)
        try:
            return self._inline(st, cr, body, args, depth)
        finally:
            self.tyenv.pop()

    def _inline(self, st, cr, body, args, depth):
        if depth > MAX_DEPTH:
            raise Undecided("inline depth")
        fr = Frame(self, cr, body, depth)
        VISITED.add((cr.name, body["path"]))
        if len(args) != body["arg_count"]:
            raise Undecided("arg count mismatch calling %s" % body["path"])
        for i, a in enumerate(args):
            st.heap[fr.cell(i + 1)] = a
        if self.trace:
            print("  " * depth + "-> " + body["path"])
        outs = self.exec_from(st, fr, 0)
        res = []
        for kind, s2, v in outs:
            if kind == "return":
                res.append((s2, v))
            elif kind == "panic":
                s2.oblig.append({"kind": "panic-path", "fn": body["path"], "crate": cr.name, "ok": False, "detail": "explicit panic reachable"})
                # the panicking path is not among the results: keep its obligations in the global log
                for o in s2.oblig:
                    if not o["ok"]:
                        UNPROVED.setdefault((o.get("crate", cr.name), o["fn"]), set()).add("%s %s" % (o["kind"], o["detail"]))
            else:
                raise Undecided("unexpected outcome %s" % kind)
        return res

    def run(self, cr, body, args, st):
        """top-level: returns list of (state, retval)."""
        return self.inline(st, cr, body, args, 0)

    # ------------------------------------------------------------ loops
    def do_loop(self, st, fr, H):
        from .loops import summarise_loop
        return summarise_loop(self, st, fr, H)
