"""Buffered CFB (cfb_mode::BufEncryptor / BufDecryptor): both paths of the byte-level
method against the stream definition of CFB, state invariant, export/import of the
(block, position) pair, agreement with the block-level CFB kernel."""
from .lin import Lin, lin, ZERO, ONE
from . import terms as T
from .terms import Undecided
from . import specs as S
from .modes import method_body, impl_for, run_plain, values_equal, show_value, subst_value
from .kernels import BS, base_ctx, base_facts
from .report import loc_of

_cache = {}


def buffered_types(fb):
    """ADTs of cfb_mode with inherent get_state/from_state (the byte-level front ends)."""
    cr = fb.crate("cfb_mode")
    out = []
    for a in cr.adts:
        meths = {}
        for b in cr.bodies:
            if b.get("impl_self_ty") is not None and "impl_trait" not in b and b.get("impl_self", "").split("<")[0] == a["path"]:
                meths[b["name"]] = b
        if "get_state" in meths and "from_state" in meths:
            d = "enc" if "encrypt" in meths else ("dec" if "decrypt" in meths else None)
            out.append({"adt": a, "meths": meths, "dir": d, "proc": meths.get("encrypt") or meths.get("decrypt")})
    return cr, out


def shape(fb, cr, ty):
    """which leaves of the type are the (block, position) pair: read off get_state, which hands out
    a reference to a block-sized byte leaf of self and the value of a size leaf.  Field names and
    nesting (a register struct inside the type) are the code's business."""
    if "shape" in ty:
        if ty["shape"] is None:
            raise Undecided(ty["shape_err"])
        return ty["shape"]
    ty["shape"] = None
    ty["shape_err"] = "get_state does not return (&<byte leaf of self>, <size leaf of self>)"
    ip, pg = run_plain(fb, cr, ty["meths"]["get_state"], ["self"], base_ctx(), base_facts())
    if len(pg) != 1:
        raise Undecided("several paths in get_state")
    ret = pg[0]["ret"]
    ok = ret[0] == "tuple" and len(ret[1]) == 2 and ret[1][0][0] == "ref" and ret[1][0][1].cell == ("A", "self") \
        and ret[1][0][1].path and all(x[0] == "f" for x in ret[1][0][1].path) and ret[1][1][0] == "size"
    if ok:
        bpath = tuple(str(x[1]) for x in ret[1][0][1].path)
        sy = list(ret[1][1][1].symbols())
        ok = len(sy) == 1 and ret[1][1][1] == Lin.sym(sy[0]) and sy[0].startswith("self.")
    if ok:
        ppath = tuple(sy[0].split(".")[1:])
        bl = leaf(pg[0]["cells"]["self"], bpath)
        pl = leaf(pg[0]["cells"]["self"], ppath)
        ok = bl is not None and bl[0] == "bytes" and pl is not None and pl[0] == "size" and pl[1] == Lin.sym(sy[0]) \
            and bl[1] == T.bvar("self." + ".".join(bpath))
    if not ok:
        ty["shape_ret"] = ret
        raise Undecided(ty["shape_err"])
    ty["shape_ret"] = ret
    ty["shape"] = {"bpath": bpath, "ppath": ppath, "bvar": "self." + ".".join(bpath), "psym": sy[0]}
    return ty["shape"]


def leaf(v, path):
    for part in path:
        if v is None or v[0] != "struct":
            return None
        v = v[2].get(part, v[2].get(int(part)) if part.isdigit() else None)
    return v


def inv_facts(psym="self.pos"):
    F = base_facts()
    pos = Lin.sym(psym)
    F.add_ge(pos)
    F.add_ge(BS - 1 - pos)      # struct invariant: pos < block size
    return F


def run_proc(fb, cr, ty):
    key = (id(fb), ty["adt"]["path"])
    if key not in _cache:
        try:
            sh = shape(fb, cr, ty)
            ip, paths = run_plain(fb, cr, ty["proc"], ["self", "data"], base_ctx(), inv_facts(sh["psym"]))
            _cache[key] = (paths, None)
        except Undecided as e:
            _cache[key] = (None, str(e))
    return _cache[key]


def expected(dir_, p, F, sh):
    """stream definition of CFB for one call, from state (Kb, pos) on `data` of length n.
    returns (out, K', pos') for the path p (short / long decided by the path facts)."""
    pos = Lin.sym(sh["psym"])
    n = Lin.sym("data.len")
    T.declare_var("data", n)
    T.declare_var(sh["bvar"], BS)
    Kb = T.bvar(sh["bvar"])
    data = T.bvar("data")
    if F.prove_ge(BS - pos - n - 1):
        ks = T.bslice(Kb, pos, n, F)
        out = T.bxor(data, ks, F)
        c = out if dir_ == "enc" else data
        K2 = T.bnorm(T.bslice(Kb, ZERO, pos, F) + c + T.bslice(Kb, pos + n, BS - pos - n, F), F)
        return out, K2, pos + n
    if not F.prove_ge(n - (BS - pos)):
        raise Undecided("path decides neither the short nor the long case")
    left = BS - pos
    dec = p["state"].decomp.get((n - left, BS))
    if dec is None:
        raise Undecided("no block decomposition of the remaining data recorded")
    m, r = dec
    d_left = T.bslice(data, ZERO, left, F)
    o_left = T.bxor(d_left, T.bslice(Kb, pos, left, F), F)
    c_left = o_left if dir_ == "enc" else d_left
    C0 = T.bnorm(T.bslice(Kb, ZERO, pos, F) + c_left, F)
    K1 = T.mkcipher("E", C0, F)
    j = T.fresh("$bj")
    v = Lin.sym(j)
    Fj = F.copy()
    Fj.add_ge(v)
    Fj.add_ge(m - 1 - v)
    blk = T.bslice(data, left + v * BS, BS, Fj)
    if dir_ == "enc":
        sv = T.fresh("$bs")
        T.declare_var(sv, BS)
        o = T.bxor(blk, T.bvar(sv), Fj)
        rid = T.mkrec(K1, T.mkcipher("E", o, Fj), o, BS, sv, j, Fj)
        mid = T.bnorm((("m", j, ZERO, m, BS, T.rec_out(rid, v, Fj)),), F)
        Kl = T.rec_state(rid, m, F)
    else:
        prev = T.bslice(data, left + (v - 1) * BS, BS, Fj)
        kj = T.bnorm((("i", ("eq", v), BS, K1, T.mkcipher("E", prev, Fj)),), Fj)
        mid = T.bnorm((("m", j, ZERO, m, BS, T.bxor(blk, kj, Fj)),), F)
        lastc = T.bslice(data, left + (m - 1) * BS, BS, F)
        Kl = T.bnorm((("i", ("eq", m), BS, K1, T.mkcipher("E", lastc, F)),), F)
    rem = T.bslice(data, left + m * BS, r, F)
    o_rem = T.bxor(rem, T.bslice(Kl, ZERO, r, F), F)
    c_rem = o_rem if dir_ == "enc" else rem
    out = T.bnorm(o_left + mid + o_rem, F)
    K2 = T.bnorm(c_rem + T.bslice(Kl, r, BS - r, F), F)
    return out, K2, r


def check_definition(rep, fb, rule_prefix="buf"):
    cr, types = buffered_types(fb)
    if len(types) < 2:
        rep.ob(rule_prefix + ".discovered", "cfb_mode", False, "expected the buffered encryptor and decryptor, found %d types with get_state/from_state" % len(types))
    for ty in types:
        inst = "cfb_mode::" + ty["adt"]["path"]
        if ty["proc"] is None or ty["dir"] is None:
            rep.undecided(rule_prefix + ".def", inst, "no encrypt/decrypt method found")
            continue
        loc = loc_of(ty["proc"])
        paths, err = run_proc(fb, cr, ty)
        if paths is None:
            rep.undecided(rule_prefix + ".def", inst, err, loc)
            continue
        kinds = set()
        sh = shape(fb, cr, ty)
        for p in paths:
            F = p["F"]
            try:
                short = F.prove_ge(BS - Lin.sym(sh["psym"]) - Lin.sym("data.len") - 1)
                kind = "short" if short else "long"
                kinds.add(kind)
                eo, eK, epos = expected(ty["dir"], p, F, sh)
                selfv = p["cells"]["self"]
                sblk, spos = leaf(selfv, sh["bpath"]), leaf(selfv, sh["ppath"])
                got_o = p["cells"]["data"]
                rep.ob(rule_prefix + ".def.out", "%s/%s" % (inst, kind), T.bequal(got_o[1], eo, F), "bytes written == CFB stream definition from state (block, pos)", loc, computed=T.bshow(got_o[1]), expected=T.bshow(eo))
                rep.ob(rule_prefix + ".def.state", "%s/%s" % (inst, kind), T.bequal(sblk[1], eK, F), "stored block == ciphertext of the partial block followed by unused keystream", loc, computed=T.bshow(sblk[1]), expected=T.bshow(eK))
                rep.ob(rule_prefix + ".def.pos", "%s/%s" % (inst, kind), spos[0] == "size" and F.prove_eq(spos[1] - epos), "position == bytes consumed of the current block", loc, computed=show_value(spos), expected=repr(epos))
                rep.ob(rule_prefix + ".invariant", "%s/%s" % (inst, kind), F.prove_ge(spos[1]) and F.prove_ge(BS - 1 - spos[1]), "pos < block size is preserved", loc)
                bad = [o for o in p["oblig"] if not o["ok"]]
                rep.ob(rule_prefix + ".no-panic", "%s/%s" % (inst, kind), not bad, "; ".join("%s %s" % (o["kind"], o["detail"]) for o in bad[:3]) or "%d panic obligations discharged under pos < bs" % len(p["oblig"]), loc)
            except (Undecided, KeyError, TypeError) as e:
                rep.undecided(rule_prefix + ".def", inst, str(e), loc)
        rep.ob(rule_prefix + ".paths", inst, kinds == {"short", "long"}, "short and long path both analysed: %s" % sorted(kinds), loc)


def check_chunking(rep, fb, rule_prefix="buf.chunk"):
    """C08: empty piece is the identity; two short pieces compose to one short piece."""
    cr, types = buffered_types(fb)
    for ty in types:
        inst = "cfb_mode::" + ty["adt"]["path"]
        if ty["proc"] is None:
            continue
        loc = loc_of(ty["proc"])
        paths, err = run_proc(fb, cr, ty)
        if paths is None:
            rep.undecided(rule_prefix, inst, err, loc)
            continue
        sh = shape(fb, cr, ty)
        pos = Lin.sym(sh["psym"])
        n = Lin.sym("data.len")
        for p in paths:
            F = p["F"]
            if not F.prove_ge(BS - pos - n - 1):
                continue
            try:
                selfv = p["cells"]["self"]
                sblk, spos = leaf(selfv, sh["bpath"]), leaf(selfv, sh["ppath"])
                # (a) empty piece
                F0 = F.copy()
                F0.add_eq(n)
                K0 = T.bsubst(sblk[1], {}, {"data.len": ZERO}, F0)
                T.declare_var(sh["bvar"], BS)
                rep.ob(rule_prefix + ".empty-identity", inst, T.bequal(K0, T.bvar(sh["bvar"]), F0) and F0.prove_eq(spos[1] - pos), "an empty piece changes neither block nor position", loc)
                # (b) short(n1) ; short(n2) == short(n1+n2)
                n1, n2 = Lin.sym("n1"), Lin.sym("n2")
                Fc = base_facts()
                Fc.add_ge(pos)
                Fc.add_ge(n1)
                Fc.add_ge(n2)
                Fc.add_ge(BS - 1 - pos - n1 - n2)
                T.declare_var("d1", n1)
                T.declare_var("d2", n2)
                out_t, K_t = p["cells"]["data"][1], sblk[1]
                o1 = T.bsubst(out_t, {"data": T.bvar("d1")}, {"data.len": n1}, Fc)
                K1 = T.bsubst(K_t, {"data": T.bvar("d1")}, {"data.len": n1}, Fc)
                o2 = T.bsubst(out_t, {"data": T.bvar("d2"), sh["bvar"]: K1}, {"data.len": n2, sh["psym"]: pos + n1}, Fc)
                K2 = T.bsubst(K_t, {"data": T.bvar("d2"), sh["bvar"]: K1}, {"data.len": n2, sh["psym"]: pos + n1}, Fc)
                both = T.bnorm(T.bvar("d1") + T.bvar("d2"), Fc)
                oo = T.bsubst(out_t, {"data": both}, {"data.len": n1 + n2}, Fc)
                KK = T.bsubst(K_t, {"data": both}, {"data.len": n1 + n2}, Fc)
                rep.ob(rule_prefix + ".short-short.out", inst, T.bequal(T.bnorm(o1 + o2, Fc), oo, Fc), "two short pieces produce the bytes of the concatenated piece", loc, computed=T.bshow(T.bnorm(o1 + o2, Fc)), expected=T.bshow(oo))
                rep.ob(rule_prefix + ".short-short.state", inst, T.bequal(K2, KK, Fc), "and leave the same block", loc, computed=T.bshow(K2), expected=T.bshow(KK))
            except (Undecided, KeyError, TypeError) as e:
                rep.undecided(rule_prefix, inst, str(e), loc)


def check_chunking_long(rep, fb, rule_prefix="buf.chunk"):
    """C08, deeper: a short piece followed by a long one, and a long piece followed by a short
    one, produce the bytes and the state of the concatenated piece.  Decided by substituting the
    first call's state term into the second call's summary (same block decomposition symbols)."""
    cr, types = buffered_types(fb)
    n = Lin.sym("data.len")
    for ty in types:
        inst = "cfb_mode::" + ty["adt"]["path"]
        if ty["proc"] is None:
            continue
        loc = loc_of(ty["proc"])
        paths, err = run_proc(fb, cr, ty)
        if paths is None:
            rep.undecided(rule_prefix + ".compose", inst, err, loc)
            continue
        sh = shape(fb, cr, ty)
        pos = Lin.sym(sh["psym"])
        short = [p for p in paths if p["F"].prove_ge(BS - pos - n - 1)]
        long_ = [p for p in paths if not p["F"].prove_ge(BS - pos - n - 1)]
        if len(short) != 1 or len(long_) != 1:
            rep.undecided(rule_prefix + ".compose", inst, "expected one short and one long path", loc)
            continue
        ps, pl = short[0], long_[0]
        try:
            dec = pl["state"].decomp.get((n - (BS - pos), BS))
            if dec is None:
                raise Undecided("no block decomposition recorded on the long path")
            m, r = dec
            so, sK = ps["cells"]["data"][1], leaf(ps["cells"]["self"], sh["bpath"])[1]
            lo_, lK = pl["cells"]["data"][1], leaf(pl["cells"]["self"], sh["bpath"])[1]
            n1, n2 = Lin.sym("n1"), Lin.sym("n2")
            # ---- short(n1) ; long(n2)  ==  long(n1+n2), total = (bs-pos) + m*bs + r
            Fc = pl["F"].copy()
            Fc.add_ge(n1)
            Fc.add_ge(BS - 1 - pos - n1)
            Fc.add_eq(n1 + n2 - n)
            Fc.rewrites["n2"] = n - n1
            Fc.add_ge(n2 - (BS - pos - n1))
            T.declare_var("d1", n1)
            T.declare_var("d2", n2)
            T.declare_var("data", n)
            T.declare_var(sh["bvar"], BS)
            o1 = T.bsubst(so, {"data": T.bvar("d1")}, {"data.len": n1}, Fc)
            K1 = T.bsubst(sK, {"data": T.bvar("d1")}, {"data.len": n1}, Fc)
            o2 = T.bsubst(lo_, {"data": T.bvar("d2"), sh["bvar"]: K1}, {"data.len": n2, sh["psym"]: pos + n1}, Fc)
            K2 = T.bsubst(lK, {"data": T.bvar("d2"), sh["bvar"]: K1}, {"data.len": n2, sh["psym"]: pos + n1}, Fc)
            both = T.bnorm(T.bvar("d1") + T.bvar("d2"), Fc)
            oo = T.bsubst(lo_, {"data": both}, None, Fc)
            KK = T.bsubst(lK, {"data": both}, None, Fc)
            rep.ob(rule_prefix + ".short-long.out", inst, T.bequal(T.bnorm(o1 + o2, Fc), oo, Fc), "a short piece then a long piece produce the bytes of the concatenated piece", loc, computed=T.bshow(T.bnorm(o1 + o2, Fc)), expected=T.bshow(oo))
            rep.ob(rule_prefix + ".short-long.state", inst, T.bequal(K2, KK, Fc), "and leave the same block", loc, computed=T.bshow(K2), expected=T.bshow(KK))
            # ---- long(n1) ; short(n2)  ==  long(n1+n2) with remainder r+n2 < bs
            rsym = [x for x in r.symbols()]
            if len(rsym) != 1 or r != Lin.sym(rsym[0]):
                raise Undecided("remainder is not a plain symbol")
            Fd = pl["F"].copy()
            Fd.add_ge(n2)
            Fd.add_ge(BS - 1 - r - n2)
            T.declare_var("d1", n)
            o1 = T.bsubst(lo_, {"data": T.bvar("d1")}, None, Fd)
            K1 = T.bsubst(lK, {"data": T.bvar("d1")}, None, Fd)
            o2 = T.bsubst(so, {"data": T.bvar("d2"), sh["bvar"]: K1}, {"data.len": n2, sh["psym"]: r}, Fd)
            K2 = T.bsubst(sK, {"data": T.bvar("d2"), sh["bvar"]: K1}, {"data.len": n2, sh["psym"]: r}, Fd)
            both = T.bnorm(T.bvar("d1") + T.bvar("d2"), Fd)
            T.declare_var("data", n + n2)
            oo = T.bsubst(lo_, {"data": both}, {"data.len": n + n2, rsym[0]: r + n2}, Fd)
            KK = T.bsubst(lK, {"data": both}, {"data.len": n + n2, rsym[0]: r + n2}, Fd)
            rep.ob(rule_prefix + ".long-short.out", inst, T.bequal(T.bnorm(o1 + o2, Fd), oo, Fd), "a long piece then a short piece produce the bytes of the concatenated piece", loc, computed=T.bshow(T.bnorm(o1 + o2, Fd)), expected=T.bshow(oo))
            rep.ob(rule_prefix + ".long-short.state", inst, T.bequal(K2, KK, Fd), "and leave the same block", loc, computed=T.bshow(K2), expected=T.bshow(KK))
        except (Undecided, KeyError, TypeError) as e:
            rep.undecided(rule_prefix + ".compose", inst, str(e), loc)


def check_state(rep, fb, rule_prefix="buf.state"):
    """C09: from_state(c, get_state()) is the field-wise identity."""
    cr, types = buffered_types(fb)
    for ty in types:
        inst = "cfb_mode::" + ty["adt"]["path"]
        try:
            g, f = ty["meths"]["get_state"], ty["meths"]["from_state"]
            try:
                sh = shape(fb, cr, ty)
            except Undecided:
                sh = None
            # the exported pair is the (block, position) pair every other buf.* rule is stated over
            rep.ob(rule_prefix + ".get", inst, sh is not None, "get_state returns (&<block leaf of self>, <position leaf of self>)", loc_of(g), computed=show_value(ty["shape_ret"]) if ty.get("shape_ret") is not None else None)
            if sh is None:
                continue
            ip2, pf = run_plain(fb, cr, f, ["c", "blk", "p"], base_ctx(), base_facts())
            if len(pf) != 1:
                raise Undecided("several paths")
            made = pf[0]["ret"]
            T.declare_var("blk", BS)
            mb, mp = leaf(made, sh["bpath"]), leaf(made, sh["ppath"])
            ok2 = mb is not None and mp is not None and mb[0] == "bytes" and T.bequal(mb[1], T.bvar("blk"), pf[0]["F"]) \
                and mp[0] == "size" and mp[1] == Lin.sym("p")
            rep.ob(rule_prefix + ".from", inst, ok2, "from_state stores exactly the given block and position", loc_of(f), computed=show_value(made))
        except (Undecided, KeyError, IndexError) as e:
            rep.undecided(rule_prefix, inst, str(e))


def check_init(rep, fb, rule_prefix="buf.init"):
    """C14: buffered types start from the same state as the block-level CFB types (E(IV), position 0)."""
    cr, types = buffered_types(fb)
    from .blockmode import block_backends, analyse
    ref = None
    for be in block_backends(fb, {"cfb_mode"}):
        bm = analyse(fb, be)
        if bm.init is not None:
            ref = bm
            break
    for ty in types:
        inst = "cfb_mode::" + ty["adt"]["path"]
        try:
            im = impl_for(cr, "InnerIvInit", ty["adt"]["path"])
            b = method_body(cr, im, "inner_iv_init") if im else None
            if b is None or ref is None:
                raise Undecided("no InnerIvInit / no block-level reference")
            ip, ps = run_plain(fb, cr, b, ["c", "IV"], base_ctx(), base_facts())
            r = ps[0]["ret"]
            of = [f for f in ref.state_fields()][0]
            want = ref.init_leaf(of)
            sh = shape(fb, cr, ty)
            rb, rp = leaf(r, sh["bpath"]), leaf(r, sh["ppath"])
            ok = rb is not None and rp is not None and values_equal(rb, want, ps[0]["F"]) and rp[0] == "size" and rp[1] == ZERO
            rep.ob(rule_prefix, inst, ok, "initial state == block-level CFB initial keystream block, position 0", loc_of(b), computed=show_value(r), expected=show_value(want))
        except (Undecided, KeyError, IndexError) as e:
            rep.undecided(rule_prefix, inst, str(e))


def check_roundtrip(rep, fb, rule_prefix="inv.buf"):
    """C01 for the buffered pair: decrypt(encrypt(data)) == data from equal states, equal states afterwards."""
    cr, types = buffered_types(fb)
    enc = [t for t in types if t["dir"] == "enc"]
    dec = [t for t in types if t["dir"] == "dec"]
    if not enc or not dec:
        rep.ob(rule_prefix, "cfb_mode", False, "buffered encryptor/decryptor pair not found")
        return
    pe, e1 = run_proc(fb, cr, enc[0])
    pd, e2 = run_proc(fb, cr, dec[0])
    inst = "cfb_mode::buffered"
    loc = loc_of(dec[0]["proc"])
    if pe is None or pd is None:
        rep.undecided(rule_prefix, inst, e1 or e2, loc)
        return
    try:
        she, shd = shape(fb, cr, enc[0]), shape(fb, cr, dec[0])
    except Undecided as e:
        rep.undecided(rule_prefix, inst, str(e), loc)
        return
    pos, posd = Lin.sym(she["psym"]), Lin.sym(shd["psym"])
    n = Lin.sym("data.len")
    T.declare_var(she["bvar"], BS)
    # "from equal states": the decryptor's (block, position) leaves are the encryptor's
    same_b = {} if shd["bvar"] == she["bvar"] else {shd["bvar"]: T.bvar(she["bvar"])}
    same_p = {} if shd["psym"] == she["psym"] else {shd["psym"]: pos}
    for p in pe:
        F = p["F"]
        short = F.prove_ge(BS - pos - n - 1)
        kind = "short" if short else "long"
        try:
            c = p["cells"]["data"][1]
            for q in pd:
                if q["F"].prove_ge(BS - posd - n - 1) != short:
                    continue
                F2 = q["F"].copy()
                lenv = dict(same_p)
                if same_p:
                    F2.add_eq(posd - pos)
                    F2.rewrites[shd["psym"]] = pos
                if not short:
                    de = p["state"].decomp.get((n - (BS - pos), BS))
                    dd = q["state"].decomp.get((n - (BS - posd), BS))
                    if de is None or dd is None:
                        raise Undecided("no decomposition")
                    for a, b in zip(dd, de):
                        if a != b and len(a.t) == 1 and a.c == 0:
                            lenv[a.t[0][0][0]] = b
                    for gfact in F.ges:
                        F2.add_ge(gfact)
                    # one decomposition of the common length: the decryptor's symbols are the encryptor's
                    F2.rewrites = {k_: (v_ if k_ == "__generated__" else v_.subst(lenv)) for k_, v_ in F2.rewrites.items()}
                back = T.bsubst(q["cells"]["data"][1], dict(same_b, data=c), lenv, F2)
                T.declare_var("data", n)
                rep.ob(rule_prefix + ".out", "%s/%s" % (inst, kind), T.bequal(back, T.bvar("data"), F2), "BufDecryptor::decrypt(BufEncryptor::encrypt(data)) normalises to data", loc, computed=T.bshow(back), expected="data")
                Ke = leaf(p["cells"]["self"], she["bpath"])[1]
                Kd = T.bsubst(leaf(q["cells"]["self"], shd["bpath"])[1], dict(same_b, data=c), lenv, F2)
                rep.ob(rule_prefix + ".state", "%s/%s" % (inst, kind), T.bequal(Ke, Kd, F2), "both sides hold the same block afterwards", loc, computed=T.bshow(Kd), expected=T.bshow(Ke))
                pe_, pd_ = leaf(p["cells"]["self"], she["ppath"]), leaf(q["cells"]["self"], shd["ppath"])
                le = {a: b for a, b in lenv.items()}
                same_pos = pe_[0] == "size" and pd_[0] == "size" and F2.prove_eq(pe_[1] - T.lsub(pd_[1], le))
                rep.ob(rule_prefix + ".pos", "%s/%s" % (inst, kind), same_pos, "and the same position (so the next call continues in step)", loc, computed=show_value(pd_), expected=show_value(pe_))
        except (Undecided, KeyError, TypeError) as e:
            rep.undecided(rule_prefix, "%s/%s" % (inst, kind), str(e), loc)
