"""Symbolic linear (polynomial) forms over size symbols and a small entailment
engine (Fourier-Motzkin over the rationals, with degree-2 product lemmas).

Used only to PROVE inequalities (rational infeasibility of the negation implies
integer infeasibility), so it is sound; failing to prove is reported as
'undecided', never as 'false'.
"""
from fractions import Fraction


class Lin:
    """c + sum coeff * monomial ; monomial = sorted tuple of symbol names."""
    __slots__ = ("c", "t", "_h")

    def __init__(self, c=0, t=()):
        self.c = c
        self.t = t
        self._h = None

    @staticmethod
    def const(c):
        return Lin(c, ())

    @staticmethod
    def sym(name):
        return Lin(0, (((name,), 1),))

    @staticmethod
    def _mk(c, d):
        return Lin(c, tuple(sorted((m, k) for m, k in d.items() if k != 0)))

    def terms(self):
        return dict(self.t)

    def __add__(self, o):
        o = lin(o)
        d = dict(self.t)
        for m, k in o.t:
            d[m] = d.get(m, 0) + k
        return Lin._mk(self.c + o.c, d)

    __radd__ = __add__

    def __neg__(self):
        return Lin(-self.c, tuple((m, -k) for m, k in self.t))

    def __sub__(self, o):
        return self + (-lin(o))

    def __rsub__(self, o):
        return lin(o) - self

    def __mul__(self, o):
        o = lin(o)
        d = {}
        c = self.c * o.c
        for m, k in self.t:
            if o.c:
                d[m] = d.get(m, 0) + k * o.c
            for m2, k2 in o.t:
                mm = tuple(sorted(m + m2))
                d[mm] = d.get(mm, 0) + k * k2
        for m2, k2 in o.t:
            if self.c:
                d[m2] = d.get(m2, 0) + k2 * self.c
        return Lin._mk(c, d)

    __rmul__ = __mul__

    def is_const(self):
        return not self.t

    def key(self):
        return (self.c, self.t)

    def __eq__(self, o):
        if isinstance(o, int):
            return not self.t and self.c == o
        return isinstance(o, Lin) and self.c == o.c and self.t == o.t

    def __ne__(self, o):
        return not self.__eq__(o)

    def __lt__(self, o):
        return self.key() < lin(o).key()

    def __hash__(self):
        if self._h is None:
            self._h = hash((self.c, self.t))
        return self._h

    def symbols(self):
        s = set()
        for m, _ in self.t:
            s.update(m)
        return s

    def subst(self, env):
        """env: symbol -> Lin."""
        if not any(sym in env for m, _ in self.t for sym in m):
            return self
        r = Lin.const(self.c)
        for m, k in self.t:
            p = Lin.const(k)
            for sym in m:
                p = p * (env[sym] if sym in env else Lin.sym(sym))
            r = r + p
        return r

    def degree(self):
        return max([len(m) for m, _ in self.t] + [0])

    def div_sym(self, e):
        """exact division by Lin e (const or single symbol monomial with coeff); None if not exact."""
        e = lin(e)
        if e.is_const():
            if e.c == 0:
                return None
            if self.c % e.c or any(k % e.c for _, k in self.t):
                return None
            return Lin(self.c // e.c, tuple((m, k // e.c) for m, k in self.t))
        if e.c == 0 and len(e.t) == 1:
            (em, ek), = e.t
            if self.c != 0:
                return None
            d = {}
            for m, k in self.t:
                mm = list(m)
                for s in em:
                    if s in mm:
                        mm.remove(s)
                    else:
                        return None
                if k % ek:
                    return None
                d[tuple(mm)] = d.get(tuple(mm), 0) + k // ek
            c = d.pop((), 0)
            return Lin._mk(c, d)
        return None

    def __repr__(self):
        parts = []
        for m, k in self.t:
            ms = "*".join(m)
            if k == 1:
                parts.append(ms)
            elif k == -1:
                parts.append("-" + ms)
            else:
                parts.append("%d*%s" % (k, ms))
        if self.c or not parts:
            parts.append(str(self.c))
        return "+".join(parts).replace("+-", "-")


def lin(x):
    if isinstance(x, Lin):
        return x
    if isinstance(x, int):
        return Lin.const(x)
    raise TypeError("not a Lin: %r" % (x,))


ZERO = Lin.const(0)
ONE = Lin.const(1)


_UNSAT_CACHE = {}


class Facts:
    """Conjunction of constraints  l >= 0  (Lin)."""

    def __init__(self, ges=()):
        self.ges = list(ges)
        self._cache = {}
        self.rewrites = {}      # symbol -> Lin: definitional equalities used to canonicalise forms

    def copy(self):
        f = Facts(self.ges)
        f.rewrites = dict(self.rewrites)
        if "__generated__" in f.rewrites:
            f.rewrites["__generated__"] = set(f.rewrites["__generated__"])
        return f

    def canon(self, l):
        """l with the definitional equalities applied (e.g. len := k*bs + d)."""
        l = lin(l)
        if not self.rewrites:
            return l
        rw = {k: v for k, v in self.rewrites.items() if k != "__generated__"}
        for _ in range(4):
            if not (l.symbols() & set(rw)):
                break
            l = l.subst(rw)
        return l

    def add_ge(self, l):
        l = lin(l)
        if l.is_const() and l.c >= 0:
            return
        if l not in self.ges:
            self.ges.append(l)
            self._cache = {}
            if l.degree() >= 2 or self.rewrites:
                self._derive_product(l)

    def _derive_product(self, l):
        """co*x*y >= c > 0 over the integers with x >= 0 (or y >= 0) gives x >= 1 and y >= 1."""
        lc = self.canon(l)
        if not lc.t or lc.c >= 0:
            return
        if len(lc.t) == 1:
            (m, co), = lc.t
            if co <= 0 or len(m) != 2:
                return
            x, y = Lin.sym(m[0]), Lin.sym(m[1])
            if self.prove_ge(x) or self.prove_ge(y):
                self.add_ge(x - 1)
                self.add_ge(y - 1)
            return

    def add_eq(self, l):
        self.add_ge(l)
        self.add_ge(-lin(l))

    def add_cond(self, cond):
        """cond: ('ge', Lin) | ('eq', Lin) | ('lt', Lin) [Lin<0]; others ignored."""
        k = cond[0]
        if k == "ge":
            self.add_ge(cond[1])
        elif k == "lt":
            self.add_ge(-cond[1] - 1)
        elif k == "eq":
            self.add_eq(cond[1])
        elif k == "ne":
            if self.prove_ge(cond[1]):
                self.add_ge(cond[1] - 1)
            elif self.prove_ge(-cond[1]):
                self.add_ge(-cond[1] - 1)
        elif k == "and":
            for c in cond[1:]:
                self.add_cond(c)

    # ---- entailment
    def _unsat(self, cons):
        key = frozenset(cons)
        r = _UNSAT_CACHE.get(key)
        if r is None:
            r = self._unsat_uncached(cons)
            if len(_UNSAT_CACHE) > 400000:
                _UNSAT_CACHE.clear()
            _UNSAT_CACHE[key] = r
        return r

    def _unsat_uncached(self, cons):
        # product lemmas: pairwise products of degree-1 constraints whose monomials already occur
        monos = set()
        for l in cons:
            for m, _ in l.t:
                monos.add(m)
        deg1 = [l for l in cons if l.degree() <= 1]
        extra = []
        if any(len(m) >= 2 for m in monos):
            for i in range(len(deg1)):
                for j in range(i, len(deg1)):
                    p = deg1[i] * deg1[j]
                    if all(m in monos for m, _ in p.t) and p.degree() == 2:
                        extra.append(p)
        rows = []
        for l in cons + extra:
            rows.append((dict(l.t), l.c))
        if _fm_unsat(rows):
            return True
        n_base = len(extra)
        # second attempt, with the
        # integer factor lemma: x*A + c >= 0 with c < 0 and x >= 0 over the integers gives A >= 1
        # (symbols pinned to zero by two rows are dropped first); purely syntactic side conditions
        cset = set(cons)
        zero = set()
        for l in cons:
            if l.c == 0 and len(l.t) == 1 and len(l.t[0][0]) == 1 and l.t[0][1] == 1 and (-l) in cset:
                zero.add(l.t[0][0][0])
        for l in cons:
            if l.c > 0 or l.degree() != 2:
                continue
            lc = l.subst({z: Lin.const(0) for z in zero}) if (zero & l.symbols()) else l
            if not lc.t or lc.c > 0 or lc.degree() != 2:
                continue
            if lc.c == 0:
                # x*A >= 0 with x >= 1 gives A >= 0
                common = set(lc.t[0][0])
                for m, _ in lc.t[1:]:
                    common &= set(m)
                for xs in sorted(common):
                    x = Lin.sym(xs)
                    if not ((x - 1) in cset or (x - 2) in cset):
                        continue
                    A = Lin(0, ())
                    for m, co in lc.t:
                        mm = list(m)
                        mm.remove(xs)
                        A = (A + Lin(0, ((tuple(mm), co),))) if mm else (A + co)
                    if A.degree() <= 1 and A not in cset:
                        extra.append(A)
                    break
                continue
            common = set(lc.t[0][0])
            for m, _ in lc.t[1:]:
                common &= set(m)
            for xs in sorted(common):
                x = Lin.sym(xs)
                if not (x in cset or (x - 1) in cset or (x - 2) in cset):
                    continue
                A = Lin(0, ())
                for m, co in lc.t:
                    mm = list(m)
                    mm.remove(xs)
                    A = (A + Lin(0, ((tuple(mm), co),))) if mm else (A + co)
                if A.degree() <= 1 and (A - 1) not in cset:
                    extra.append(A - 1)
                    # and its products with the degree-1 rows (so that x*(A-1) >= 0 is available)
                    for dl in deg1:
                        p = (A - 1) * dl
                        if p.degree() == 2 and all(m in monos for m, _ in p.t):
                            extra.append(p)
                break
        if len(extra) == n_base:
            return False
        rows = []
        for l in cons + extra:
            rows.append((dict(l.t), l.c))
        return _fm_unsat(rows)

    def prove_ge(self, l):
        """True iff facts entail l >= 0."""
        l = lin(l)
        if l.is_const():
            return l.c >= 0
        k = ("ge", l)
        if k in self._cache:
            return self._cache[k]
        r = self._unsat(self.ges + [-l - 1])
        self._cache[k] = r
        return r

    def prove_eq(self, l):
        l = lin(l)
        if l.is_const():
            return l.c == 0
        return self.prove_ge(l) and self.prove_ge(-l)

    def prove_gt(self, l):
        return self.prove_ge(lin(l) - 1)

    def prove_cond(self, cond):
        k = cond[0]
        if k == "ge":
            return self.prove_ge(cond[1])
        if k == "lt":
            return self.prove_ge(-cond[1] - 1)
        if k == "eq":
            return self.prove_eq(cond[1])
        if k == "ne":
            return self.prove_ge(cond[1] - 1) or self.prove_ge(-cond[1] - 1)
        if k == "true":
            return True
        if k == "and":
            return all(self.prove_cond(c) for c in cond[1:])
        return False

    def refute_cond(self, cond):
        return self.prove_cond(neg_cond(cond))

    def saturate(self, syms=None):
        """add provable constant lower bounds (1, 2) of symbols as explicit facts so that
        product lemmas can use them."""
        if syms is None:
            syms = set()
            for l in self.ges:
                syms |= l.symbols()
        for sname in sorted(syms):
            sy = Lin.sym(sname)
            for c in (1, 2):
                if (sy - c) in self.ges:
                    continue
                if self.prove_ge(sy - c):
                    self.add_ge(sy - c)
                else:
                    break

    def inconsistent(self):
        return self._unsat(list(self.ges))

    def cmp(self, a, b):
        """-1 if a<b provable, 0 if a==b provable, 1 if a>b provable, None otherwise."""
        d = lin(a) - lin(b)
        if d.is_const():
            return (d.c > 0) - (d.c < 0)
        if self.prove_eq(d):
            return 0
        if self.prove_ge(d - 1):
            return 1
        if self.prove_ge(-d - 1):
            return -1
        return None

    def le(self, a, b):
        return self.prove_ge(lin(b) - lin(a))

    def __repr__(self):
        return " & ".join("%r>=0" % l for l in self.ges)


def neg_cond(cond):
    k = cond[0]
    if k == "ge":
        return ("lt", cond[1])
    if k == "lt":
        return ("ge", cond[1])
    if k == "eq":
        return ("ne", cond[1])
    if k == "ne":
        return ("eq", cond[1])
    if k == "true":
        return ("false",)
    if k == "false":
        return ("true",)
    if k == "not":
        return cond[1]
    return ("not", cond)


def _fm_unsat(rows):
    """rows: list of (coeffs dict, const) meaning sum + const >= 0 (integer coefficients).
    True iff infeasible over Q (Fourier-Motzkin with integer arithmetic, rows kept primitive)."""
    from math import gcd

    def prim(co, c):
        g = 0
        for k in co.values():
            g = gcd(g, abs(k))
        g = gcd(g, abs(c)) if g else 0
        if g > 1:
            return {m: k // g for m, k in co.items()}, c // g
        return co, c

    cur = []
    for co, c in rows:
        co = {m: int(k) for m, k in co.items() if k != 0}
        cur.append(prim(co, int(c)))
    for _ in range(64):
        nr = []
        seen = {}
        for co, c in cur:
            if not co:
                if c < 0:
                    return True
                continue
            key = tuple(sorted(co.items()))
            # same left-hand side: keep the tighter (smaller constant)
            if key in seen:
                if c < seen[key]:
                    seen[key] = c
                continue
            seen[key] = c
        cur = [(dict(k), c) for k, c in seen.items()]
        if not cur:
            return False
        vars_ = {}
        for co, c in cur:
            for m, k in co.items():
                p, n_ = vars_.get(m, (0, 0))
                if k > 0:
                    vars_[m] = (p + 1, n_)
                else:
                    vars_[m] = (p, n_ + 1)
        v = min(vars_, key=lambda m: (vars_[m][0] * vars_[m][1], m))
        pos = [(co, c) for co, c in cur if co.get(v, 0) > 0]
        neg = [(co, c) for co, c in cur if co.get(v, 0) < 0]
        rest = [(co, c) for co, c in cur if co.get(v, 0) == 0]
        if len(pos) * len(neg) > 6000:
            return False
        for pco, pc in pos:
            a = pco[v]
            for nco, nc in neg:
                b = -nco[v]
                co = {}
                for m, k in pco.items():
                    if m != v:
                        co[m] = k * b
                for m, k in nco.items():
                    if m != v:
                        x = co.get(m, 0) + k * a
                        if x:
                            co[m] = x
                        elif m in co:
                            del co[m]
                cc = pc * b + nc * a
                if not co:
                    if cc < 0:
                        return True
                    continue
                rest.append(prim(co, cc))
        cur = rest
    return False
