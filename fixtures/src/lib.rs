//! Positive controls for the item / CFG rules whose expected number of reports on the real
//! tree is zero.  Every specimen below is deliberately WRONG and must be reported by its rule on
//! every run (a rule that matches nothing would otherwise pass forever).  Never linked into anything.
#![no_std]
#![allow(dead_code, missing_docs, missing_debug_implementations)]
extern crate alloc;

use cipher::{Array, BlockSizeUser, consts::U16, zeroize::Zeroize};
use core::fmt;
use core::sync::atomic::{AtomicUsize, Ordering};

// own.no-shared-static: interior-mutable and mutable globals
pub static CALLS: AtomicUsize = AtomicUsize::new(0);
pub static mut LAST: u8 = 0;

// own.fields-by-value: shared ownership / borrowed state in a cloneable mode object
#[derive(Clone)]
pub struct SharedState {
    pub iv: alloc::rc::Rc<core::cell::RefCell<[u8; 16]>>,
    pub key: &'static [u8],
}

// own.clone-fieldwise: a manual Clone that resets the counter
pub struct Counter {
    ctr: u64,
    nonce: Array<u8, U16>,
}
impl Clone for Counter {
    fn clone(&self) -> Self {
        Self { ctr: 0, nonce: self.nonce.clone() }
    }
}

// own.clone-fieldwise (clone_from): clone() is right, clone_from() keeps the destination's key part
pub struct KeepsKey<C> {
    cipher: C,
    iv: Array<u8, U16>,
}
impl<C: Clone> Clone for KeepsKey<C> {
    fn clone(&self) -> Self {
        Self { cipher: self.cipher.clone(), iv: self.iv.clone() }
    }
    fn clone_from(&mut self, source: &Self) {
        self.iv.clone_from(&source.iv);
    }
}

// own.calls-allow-listed: hidden global state through an atomic
pub fn bump() -> usize {
    CALLS.fetch_add(1, Ordering::Relaxed)
}

// leak.debug-opaque: Debug that prints the chaining value; and a derived Debug on a state-bearing type
pub struct Leaky {
    iv: Array<u8, U16>,
}
impl fmt::Debug for Leaky {
    fn fmt(&self, f: &mut fmt::Formatter<'_>) -> fmt::Result {
        f.write_str("Leaky { iv: ")?;
        fmt::Debug::fmt(&self.iv, f)?;
        f.write_str(" }")
    }
}
#[derive(Debug)]
pub struct DerivedLeak {
    iv: Array<u8, U16>,
    pos: usize,
}

// leak.zeroize-field: Drop that forgets one state field; and one that wipes only on one path
pub struct HalfWiped {
    x: Array<u8, U16>,
    y: Array<u8, U16>,
}
impl Drop for HalfWiped {
    fn drop(&mut self) {
        self.x.zeroize();
    }
}
pub struct SometimesWiped {
    iv: Array<u8, U16>,
    flag: bool,
}
impl Drop for SometimesWiped {
    fn drop(&mut self) {
        if self.flag {
            self.iv.zeroize();
        }
    }
}
// wipes by-value copies of the fields, not the fields
pub struct CopyWiped {
    s: u128,
    t: u128,
}
impl Drop for CopyWiped {
    fn drop(&mut self) {
        let Self { mut s, mut t } = *self;
        s.zeroize();
        t.zeroize();
    }
}
pub struct NeverWiped {
    iv: Array<u8, U16>,
}
impl BlockSizeUser for NeverWiped {
    type BlockSize = U16;
}

pub mod modes;
