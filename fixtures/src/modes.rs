//! Positive (and one negative) controls for the TERM rules: CBC-shaped mode objects, each with the
//! full owner / closure / backend plumbing of the real crates, whose kernels are deliberately
//! wrong in one way.  The term rules `def.*`, `par.closed-form.*` and `alias.*` must report every
//! broken specimen and must accept the correct one (`good`), on every run.
use cipher::{
    Array, Block, BlockCipherDecBackend, BlockCipherDecClosure, BlockCipherDecrypt,
    BlockCipherEncBackend, BlockCipherEncClosure, BlockCipherEncrypt, BlockModeDecBackend,
    BlockModeDecClosure, BlockModeDecrypt, BlockModeEncBackend, BlockModeEncClosure,
    BlockModeEncrypt, BlockSizeUser, InOut, InnerIvInit, Iv, IvSizeUser, IvState, ParBlocks,
    ParBlocksSizeUser,
    array::ArraySize,
    consts::U1,
    crypto_common::{BlockSizes, InnerUser},
};

#[inline(always)]
fn xor<N: ArraySize>(out: &mut Array<u8, N>, buf: &Array<u8, N>) {
    for (a, b) in out.iter_mut().zip(buf) {
        *a ^= *b;
    }
}

macro_rules! cbc_enc_specimen {
    ($m:ident, |$slf:ident, $block:ident| $body:block) => {
        pub mod $m {
            use super::*;
            pub struct Encryptor<C: BlockCipherEncrypt> {
                cipher: C,
                iv: Block<C>,
            }
            impl<C: BlockCipherEncrypt> BlockSizeUser for Encryptor<C> {
                type BlockSize = C::BlockSize;
            }
            impl<C: BlockCipherEncrypt> InnerUser for Encryptor<C> {
                type Inner = C;
            }
            impl<C: BlockCipherEncrypt> IvSizeUser for Encryptor<C> {
                type IvSize = C::BlockSize;
            }
            impl<C: BlockCipherEncrypt> InnerIvInit for Encryptor<C> {
                fn inner_iv_init(cipher: C, iv: &Iv<Self>) -> Self {
                    Self { cipher, iv: iv.clone() }
                }
            }
            impl<C: BlockCipherEncrypt> IvState for Encryptor<C> {
                fn iv_state(&self) -> Iv<Self> {
                    self.iv.clone()
                }
            }
            impl<C: BlockCipherEncrypt> BlockModeEncrypt for Encryptor<C> {
                fn encrypt_with_backend(&mut self, f: impl BlockModeEncClosure<BlockSize = Self::BlockSize>) {
                    struct Closure<'a, BS: BlockSizes, BC: BlockModeEncClosure<BlockSize = BS>> {
                        iv: &'a mut Array<u8, BS>,
                        f: BC,
                    }
                    impl<BS: BlockSizes, BC: BlockModeEncClosure<BlockSize = BS>> BlockSizeUser for Closure<'_, BS, BC> {
                        type BlockSize = BS;
                    }
                    impl<BS: BlockSizes, BC: BlockModeEncClosure<BlockSize = BS>> BlockCipherEncClosure for Closure<'_, BS, BC> {
                        fn call<B: BlockCipherEncBackend<BlockSize = Self::BlockSize>>(self, cipher_backend: &B) {
                            let Self { iv, f } = self;
                            f.call(&mut Backend { iv, cipher_backend });
                        }
                    }
                    let Self { cipher, iv } = self;
                    cipher.encrypt_with_backend(Closure { iv, f })
                }
            }
            pub struct Backend<'a, BS: BlockSizes, BK: BlockCipherEncBackend<BlockSize = BS>> {
                iv: &'a mut Array<u8, BS>,
                cipher_backend: &'a BK,
            }
            impl<BS: BlockSizes, BK: BlockCipherEncBackend<BlockSize = BS>> BlockSizeUser for Backend<'_, BS, BK> {
                type BlockSize = BS;
            }
            impl<BS: BlockSizes, BK: BlockCipherEncBackend<BlockSize = BS>> ParBlocksSizeUser for Backend<'_, BS, BK> {
                type ParBlocksSize = U1;
            }
            impl<BS: BlockSizes, BK: BlockCipherEncBackend<BlockSize = BS>> BlockModeEncBackend for Backend<'_, BS, BK> {
                fn encrypt_block(&mut self, mut $block: InOut<'_, '_, Block<Self>>) {
                    let $slf = self;
                    $body
                }
            }
        }
    };
}

// the correct kernel: must be ACCEPTED by def.out / def.state / alias.*
cbc_enc_specimen!(good, |s, block| {
    let mut t = block.clone_in();
    xor(&mut t, s.iv);
    s.cipher_backend.encrypt_block((&mut t).into());
    *s.iv = t.clone();
    *block.get_out() = t;
});

// def.state: the chaining value is never updated
cbc_enc_specimen!(stale_iv, |s, block| {
    let mut t = block.clone_in();
    xor(&mut t, s.iv);
    s.cipher_backend.encrypt_block((&mut t).into());
    *block.get_out() = t;
});

// def.out: whitening after the cipher call instead of before it
cbc_enc_specimen!(xor_after, |s, block| {
    let mut t = block.clone_in();
    s.cipher_backend.encrypt_block((&mut t).into());
    xor(&mut t, s.iv);
    *s.iv = t.clone();
    *block.get_out() = t;
});

// def.state: chains on the plaintext block instead of the ciphertext block
cbc_enc_specimen!(chain_plain, |s, block| {
    let p = block.clone_in();
    let mut t = block.clone_in();
    xor(&mut t, s.iv);
    s.cipher_backend.encrypt_block((&mut t).into());
    *s.iv = p;
    *block.get_out() = t;
});

// alias.same.out: reads the input again after the output was written (wrong when in == out)
cbc_enc_specimen!(alias_reread, |s, block| {
    *block.get_out() = s.iv.clone();
    let p = block.clone_in();
    let mut t = block.get_out().clone();
    xor(&mut t, &p);
    s.cipher_backend.encrypt_block((&mut t).into());
    *s.iv = t.clone();
    *block.get_out() = t;
});

// alias.no-old-output: the result depends on what the output buffer held before
cbc_enc_specimen!(old_output, |s, block| {
    let mut t = block.clone_in();
    xor(&mut t, s.iv);
    let old = block.get_out().clone();
    xor(&mut t, &old);
    s.cipher_backend.encrypt_block((&mut t).into());
    *s.iv = t.clone();
    *block.get_out() = t;
});

macro_rules! cbc_dec_specimen {
    ($m:ident, |$slf:ident, $blocks:ident| $body:block) => {
        pub mod $m {
            use super::*;
            pub struct Decryptor<C: BlockCipherDecrypt> {
                cipher: C,
                iv: Block<C>,
            }
            impl<C: BlockCipherDecrypt> BlockSizeUser for Decryptor<C> {
                type BlockSize = C::BlockSize;
            }
            impl<C: BlockCipherDecrypt> InnerUser for Decryptor<C> {
                type Inner = C;
            }
            impl<C: BlockCipherDecrypt> IvSizeUser for Decryptor<C> {
                type IvSize = C::BlockSize;
            }
            impl<C: BlockCipherDecrypt> InnerIvInit for Decryptor<C> {
                fn inner_iv_init(cipher: C, iv: &Iv<Self>) -> Self {
                    Self { cipher, iv: iv.clone() }
                }
            }
            impl<C: BlockCipherDecrypt> BlockModeDecrypt for Decryptor<C> {
                fn decrypt_with_backend(&mut self, f: impl BlockModeDecClosure<BlockSize = Self::BlockSize>) {
                    struct Closure<'a, BS: BlockSizes, BC: BlockModeDecClosure<BlockSize = BS>> {
                        iv: &'a mut Array<u8, BS>,
                        f: BC,
                    }
                    impl<BS: BlockSizes, BC: BlockModeDecClosure<BlockSize = BS>> BlockSizeUser for Closure<'_, BS, BC> {
                        type BlockSize = BS;
                    }
                    impl<BS: BlockSizes, BC: BlockModeDecClosure<BlockSize = BS>> BlockCipherDecClosure for Closure<'_, BS, BC> {
                        fn call<B: BlockCipherDecBackend<BlockSize = Self::BlockSize>>(self, cipher_backend: &B) {
                            let Self { iv, f } = self;
                            f.call(&mut Backend { iv, cipher_backend });
                        }
                    }
                    let Self { cipher, iv } = self;
                    cipher.decrypt_with_backend(Closure { iv, f })
                }
            }
            pub struct Backend<'a, BS: BlockSizes, BK: BlockCipherDecBackend<BlockSize = BS>> {
                iv: &'a mut Array<u8, BS>,
                cipher_backend: &'a BK,
            }
            impl<BS: BlockSizes, BK: BlockCipherDecBackend<BlockSize = BS>> BlockSizeUser for Backend<'_, BS, BK> {
                type BlockSize = BS;
            }
            impl<BS: BlockSizes, BK: BlockCipherDecBackend<BlockSize = BS>> ParBlocksSizeUser for Backend<'_, BS, BK> {
                type ParBlocksSize = BK::ParBlocksSize;
            }
            impl<BS: BlockSizes, BK: BlockCipherDecBackend<BlockSize = BS>> BlockModeDecBackend for Backend<'_, BS, BK> {
                fn decrypt_block(&mut self, mut block: InOut<'_, '_, Block<Self>>) {
                    let in_block = block.clone_in();
                    let mut t = block.clone_in();
                    self.cipher_backend.decrypt_block((&mut t).into());
                    xor(&mut t, self.iv);
                    *block.get_out() = t;
                    *self.iv = in_block;
                }
                fn decrypt_par_blocks(&mut self, mut $blocks: InOut<'_, '_, ParBlocks<Self>>) {
                    let $slf = self;
                    $body
                }
            }
        }
    };
}

// the correct parallel body: must be ACCEPTED by par.closed-form.*
cbc_dec_specimen!(par_good, |s, blocks| {
    let in_blocks = blocks.clone_in();
    let mut t = blocks.clone_in();
    s.cipher_backend.decrypt_par_blocks((&mut t).into());
    let n = t.len();
    xor(&mut t[0], s.iv);
    for i in 1..n {
        xor(&mut t[i], &in_blocks[i - 1])
    }
    *blocks.get_out() = t;
    *s.iv = in_blocks[n - 1].clone();
});

// par.closed-form.out: every lane but the first is whitened with its own ciphertext block
cbc_dec_specimen!(par_lane_shift, |s, blocks| {
    let in_blocks = blocks.clone_in();
    let mut t = blocks.clone_in();
    s.cipher_backend.decrypt_par_blocks((&mut t).into());
    let n = t.len();
    xor(&mut t[0], s.iv);
    for i in 1..n {
        xor(&mut t[i], &in_blocks[i])
    }
    *blocks.get_out() = t;
    *s.iv = in_blocks[n - 1].clone();
});

// par.closed-form.state: the chaining value after a batch is the first block of the batch
cbc_dec_specimen!(par_state_first, |s, blocks| {
    let in_blocks = blocks.clone_in();
    let mut t = blocks.clone_in();
    s.cipher_backend.decrypt_par_blocks((&mut t).into());
    let n = t.len();
    xor(&mut t[0], s.iv);
    for i in 1..n {
        xor(&mut t[i], &in_blocks[i - 1])
    }
    *blocks.get_out() = t;
    *s.iv = in_blocks[0].clone();
});
